//! Generators (proptest strategies).  Every random choice is drawn from proptest so that
//! shrinking and seeded replay work; index-like choices are mapped monotonically so that
//! shrinking moves toward the "simplest" alternative (short, all digits, default configuration).

use crate::cases::*;
use crate::core::guard;
use proptest::collection::vec;
use proptest::prelude::*;
use refimpl::table::SYMBOLS;

/// monotone map of a raw u16 onto 0..n
pub fn pick(raw: u16, n: usize) -> usize {
    ((raw as usize) * n) >> 16
}

/// Large uniformly random byte vectors: a generated 64-bit seed expanded with splitmix64 (a pure
/// function of the generated value, so replay and shrinking of the seed still work; generating
/// thousands of independent proptest values per case would dominate the run time).
pub fn expand(seed: u64, n: usize) -> Vec<u8> {
    let mut out = Vec::with_capacity(n + 8);
    let mut x = seed;
    while out.len() < n {
        x = crate::core::splitmix(x);
        out.extend_from_slice(&x.to_le_bytes());
    }
    out.truncate(n);
    out
}

pub fn g_blob(n: usize) -> impl Strategy<Value = Vec<u8>> {
    any::<u64>().prop_map(move |s| expand(s, n))
}

pub fn g_blob16(n: usize) -> impl Strategy<Value = Vec<u16>> {
    any::<u64>().prop_map(move |s| expand(s ^ 0x5555, 2 * n).chunks(2).map(|c| u16::from_le_bytes([c[0], c[1]])).collect())
}

// ---------------------------------------------------------------------------------------------
// G-bytes
// ---------------------------------------------------------------------------------------------

/// character classes, ordered from "simple" to "exotic" (shrinking moves to class 0)
const N_CLASSES: usize = 11;

fn class_char(class: usize, r: u8) -> u8 {
    match class {
        0 => b'0' + r % 10,                       // digits
        1 => b'A' + r % 26,                       // upper case
        2 => b'a' + r % 26,                       // lower case
        3 => b" \r*>"[(r % 4) as usize],          // X12 specials
        4 => b' ',                                // space
        5 => 32 + r % 63,                         // EDIFACT range 32..=94
        6 => b"!\"#$%&'()*+,-./:;<=>?@[\\]^_"[(r % 27) as usize], // C40 shift 2 set
        7 => r % 32,                              // C0 controls
        8 => 128 + r % 128,                       // upper half
        // bytes at the edges of the value tables of the modes (first / last of each set, DEL, NUL, the
        // EDIFACT range ends, the Base256 / upper shift boundary)
        10 => [0x00u8, 0x1f, 0x20, 0x2f, 0x30, 0x39, 0x3a, 0x40, 0x41, 0x5a, 0x5b, 0x5e, 0x5f, 0x60, 0x61, 0x7a, 0x7b, 0x7e, 0x7f, 0x80, 0x81, 0x9f, 0xa0, 0xaf, 0xc0, 0xdf, 0xfe, 0xff][(r % 28) as usize],
        _ => r,                                   // anything
    }
}

/// one run: (class, length, content seeds)
fn run_strategy(max_run: usize) -> impl Strategy<Value = Vec<u8>> {
    (any::<u16>(), 1..=max_run, vec(any::<u8>(), max_run)).prop_map(|(c, len, seeds)| {
        let class = pick(c, N_CLASSES);
        seeds.iter().take(len).map(|r| class_char(class, *r)).collect()
    })
}

/// byte strings built from runs of character classes; `max_len` caps the total length.
pub fn g_bytes_len(min_runs: usize, max_runs: usize, max_run: usize, max_len: usize) -> impl Strategy<Value = Vec<u8>> {
    vec(run_strategy(max_run), min_runs..=max_runs).prop_map(move |runs| {
        let mut v: Vec<u8> = runs.into_iter().flatten().collect();
        v.truncate(max_len);
        v
    })
}

/// Inputs shaped to reach the end-of-data rules of the mode encoders: an optional short prefix,
/// a body of one character class whose length is a multiple of 3 or 4 plus 0..=3, and a tail of
/// 0..=4 characters of another class.
pub fn g_eod() -> impl Strategy<Value = Vec<u8>> {
    (any::<u16>(), vec(any::<u8>(), 3), any::<u16>(), 1usize..=9, 0usize..=3, any::<bool>(), any::<u16>(), 0usize..=4, vec(any::<u8>(), 48)).prop_map(
        |(pk, pre, bk, k, d, quad, tk, tl, seeds)| {
            let mut v = Vec::new();
            let plen = pick(pk, 4);
            let pclass = [2usize, 7, 8, 0][pick(pk.rotate_left(4), 4)];
            for i in 0..plen.min(3) {
                v.push(class_char(pclass, pre[i]));
            }
            // body class: upper (C40/X12), lower (Text), X12 specials, digits, EDIFACT range, high bytes
            let bclass = [1usize, 2, 3, 0, 5, 8, 1, 5][pick(bk, 8)];
            let blen = if quad { 4 * k + d } else { 3 * k + d };
            for i in 0..blen {
                v.push(class_char(bclass, seeds[i % 48].wrapping_add((i / 48) as u8)));
            }
            let tclass = [0usize, 0, 1, 2, 8, 4, 6, 10, 10][pick(tk, 9)];
            for i in 0..tl {
                v.push(class_char(tclass, seeds[47 - i]));
            }
            v
        },
    )
}

/// Base256 length-field boundaries: runs of 248..=252 and 1553..=1556 high bytes
pub fn g_b256_boundary() -> impl Strategy<Value = Vec<u8>> {
    (any::<u16>(), any::<u64>(), 0usize..3, any::<u8>()).prop_map(|(k, seed, extra, e)| {
        let n = [248usize, 249, 250, 251, 252, 250, 249, 1553, 1554, 1555, 1556][pick(k, 11)];
        let mut v: Vec<u8> = expand(seed, n).iter().map(|b| b | 0x80).collect();
        match e % 4 {
            // a few characters of another kind in front or behind
            0 => {
                for i in 0..extra {
                    v.push(b'0' + (e.wrapping_add(i as u8)) % 10);
                }
            }
            1 => {
                for i in 0..extra {
                    v.insert(0, b'a' + (e.wrapping_add(i as u8)) % 26);
                }
            }
            // one ASCII character, then digits (the run may or may not swallow the character)
            2 => {
                v.push(b'a' + (e / 4) % 26);
                for i in 0..extra {
                    v.push(b'0' + (e.wrapping_add(i as u8)) % 10);
                }
            }
            _ => {
                for i in 0..=extra {
                    v.push(b"z1 A"[(e as usize / 4 + i) % 4]);
                }
                v.push(b'7');
                v.push(b'3');
            }
        }
        v
    })
}

/// length strata 0–8 / 9–40 / 41–300 / 301–3116 with the weights of DESIGN §3.3
pub fn g_bytes(long_weight: u32) -> BoxedStrategy<(Vec<u8>, &'static str)> {
    // (nested: a union of more than ten options must not contain a zero weight)
    prop_oneof![
        25 => g_bytes_base(long_weight),
        2 => g_shift_tail().prop_map(|v| (v, "shift-tail")),
        long_weight => g_capacity_shaped().prop_map(|v| (v, "capacity-shaped")),
    ]
    .boxed()
}

fn g_bytes_base(long_weight: u32) -> BoxedStrategy<(Vec<u8>, &'static str)> {
    prop_oneof![
        3 => g_bytes_len(0, 4, 3, 8).prop_map(|v| (v, "len0-8")),
        4 => g_bytes_len(1, 8, 8, 40).prop_map(|v| (v, "len9-40")),
        2 => g_bytes_len(4, 30, 12, 300).prop_map(|v| (v, "len41-300")),
        long_weight => g_bytes_len(20, 300, 12, 3116).prop_map(|v| (v, "len301-3116")),
        3 => g_eod().prop_map(|v| (v, "eod-shaped")),
        long_weight => g_b256_boundary().prop_map(|v| (v, "b256-length-boundary")),
        2 => g_homogeneous(300).prop_map(|v| (v, "len41-300")),
        3 => g_segments(true).prop_map(|v| (v, "eod-shaped")),
        2 => g_alternating().prop_map(|v| (v, "len9-40")),
        2 => g_tokens().prop_map(|v| (v, "len9-40")),
    ]
    .boxed()
}

/// Two to four homogeneous segments whose lengths sit at the group boundaries of the mode that would carry
/// them (multiples of 3 and 4 and their neighbours, even / odd digit counts, Base256 fields of 249..251
/// bytes), optionally followed by a one-character tail of another kind.  Together with G-exact (applied
/// afterwards to a part of the cases) this is where a planner / encoder disagreement about one codeword
/// changes the outcome.
pub fn g_segments(allow_long: bool) -> impl Strategy<Value = Vec<u8>> {
    (vec((any::<u16>(), any::<u16>(), any::<u64>()), 2..=4), any::<u16>(), any::<u8>()).prop_map(move |(segs, tail, tv)| {
        let mut v = Vec::new();
        let mut long_used = false;
        for (c, l, seed) in segs {
            let class = [0usize, 1, 2, 3, 5, 8, 5, 8, 1, 0][pick(c, 10)];
            let len = match class {
                0 if allow_long && !long_used && l % 16 == 3 => {
                    long_used = true;
                    [254usize, 255, 256, 257, 300, 510, 512, 513][pick(l.rotate_left(5), 8)]
                }
                0 => [1usize, 2, 3, 4, 5, 6, 7, 8, 9, 10, 11, 12][pick(l, 12)],
                1 | 2 | 3 => [2usize, 3, 4, 5, 6, 7, 8, 9, 10, 12, 13, 15][pick(l, 12)],
                5 => [3usize, 4, 5, 7, 8, 9, 11, 12, 13, 16, 20, 32][pick(l, 12)],
                _ => {
                    if allow_long && !long_used && l % 4 == 0 {
                        long_used = true;
                        [249usize, 250, 251, 250][pick(l.rotate_left(3), 4)]
                    } else {
                        [1usize, 2, 3, 4, 5, 6, 8, 10][pick(l, 8)]
                    }
                }
            };
            let r = expand(seed, len);
            v.extend((0..len).map(|i| class_char(class, r[i])));
        }
        match pick(tail, 6) {
            0 => v.push(class_char(2, tv)),
            1 => v.push(class_char(10, tv)),
            2 => v.push(class_char(0, tv)),
            _ => {}
        }
        v
    })
}

/// Eight to sixteen short segments alternating between two character classes (each typically carried by
/// a different mode): plans with many switches.
pub fn g_alternating() -> impl Strategy<Value = Vec<u8>> {
    (any::<u16>(), any::<u16>(), 8usize..=16, vec((1usize..=5, any::<u64>()), 16)).prop_map(|(a, b, n, segs)| {
        let ca = [3usize, 5, 1, 2, 0, 8][pick(a, 6)];
        let mut cb = [5usize, 3, 2, 1, 8, 0][pick(b, 6)];
        if cb == ca {
            cb = (ca + 1) % 9;
        }
        let mut v = Vec::new();
        for (i, (len, seed)) in segs.iter().enumerate().take(n) {
            let r = expand(*seed, *len);
            // X12 segments in whole triples, EDIFACT ones in whole quads half of the time
            let class = if i % 2 == 0 { ca } else { cb };
            let l = if class == 3 { 3 * ((*len + 2) / 3) } else { *len };
            v.extend((0..l).map(|k| class_char(class, r[k % r.len()].wrapping_add(k as u8))));
        }
        v
    })
}

/// Well-known byte sequences that software likes to treat specially, placed at the start, the end or in the
/// middle of ordinary data: byte order marks, AIM symbology identifiers, line terminators, the macro header
/// and trailer, NUL.
pub const TOKENS: [&[u8]; 22] = [
    b"\xEF\xBB\xBF", b"\xFF\xFE", b"\xFE\xFF", b"]d1", b"]d2", b"]d3", b"]C1", b"]e0", b"]Q3", b"\r\n", b"\n", b"\r", b"\0", b"\x1d", b"\x1e\x04", b"[)>\x1e05\x1d", b"[)>\x1e06\x1d", b"[)>\x1e", b"\x04", b"01", b"http://", b"\x7f",
];

pub fn g_tokens() -> impl Strategy<Value = Vec<u8>> {
    (vec(any::<u16>(), 1..=2), g_bytes_len(0, 3, 6, 24), any::<u8>()).prop_map(|(ts, body, k)| {
        let t0 = TOKENS[pick(ts[0], TOKENS.len())];
        let mut v = Vec::new();
        match k % 4 {
            0 => {
                v.extend_from_slice(t0);
                v.extend_from_slice(&body);
            }
            1 => {
                v.extend_from_slice(&body);
                v.extend_from_slice(t0);
            }
            2 => {
                let m = body.len() / 2;
                v.extend_from_slice(&body[..m]);
                v.extend_from_slice(t0);
                v.extend_from_slice(&body[m..]);
            }
            _ => {
                v.extend_from_slice(t0);
                v.extend_from_slice(&body);
                v.extend_from_slice(TOKENS[pick(*ts.last().unwrap(), TOKENS.len())]);
            }
        }
        v
    })
}

/// one character class only (digits, upper case, ..., high bytes), any length up to `max`: the inputs on
/// which a single mode is optimal from the first to the last character
pub fn g_homogeneous(max: usize) -> impl Strategy<Value = Vec<u8>> {
    (any::<u16>(), 1usize..=max, any::<u64>(), any::<bool>()).prop_map(|(c, len, seed, same)| {
        let class = pick(c, N_CLASSES - 1);
        let r = expand(seed, len);
        (0..len).map(|i| class_char(class, if same { r[0] } else { r[i] })).collect()
    })
}

/// short / medium inputs only (used where the oracle is quadratic)
/// A run for one of the three-values-per-two-codewords modes with single characters inside it that need a
/// shift there (a byte >= 128, the other letter case, punctuation, a control character), the part behind
/// the last such character being 3m .. 3m+2 characters long, and a tail of 0..=4 digits: the pending-value
/// bookkeeping of C40 / Text / X12 at the end of the data, with state left over from an earlier character.
pub fn g_shift_tail() -> impl Strategy<Value = Vec<u8>> {
    (any::<u8>(), vec((0usize..=12, any::<u8>(), any::<u8>()), 1..=3), 0usize..=5, 0usize..=2, 0usize..=4, any::<u64>()).prop_map(|(base, shifts, m, r, digits, seed)| {
        let base_class = [1usize, 1, 2, 1][(base % 4) as usize];
        let rnd = expand(seed, 64);
        let mut k = 0usize;
        let mut next = |class: usize| {
            k += 1;
            class_char(class, rnd[k % 64])
        };
        let mut v = Vec::new();
        for (before, sc, sv) in shifts {
            for _ in 0..before {
                v.push(next(base_class));
            }
            let shift_class = [8usize, 8, 3 - base_class, 6, 7, 10][(sc % 6) as usize];
            v.push(class_char(shift_class, sv));
        }
        for _ in 0..3 * m + r {
            v.push(next(base_class));
        }
        for _ in 0..digits {
            v.push(next(0));
        }
        v
    })
}

/// Data whose natural encoding in one mode ends 0..=2 codewords below a real symbol capacity (between 3
/// and 1558): n characters of one class with n computed from the mode's density, and 0..=4 foreign
/// characters written over random positions.  Decisions between two whole-message encodings that differ
/// by one codeword (the second Base256 length byte, the "to the end of the symbol" length 0, an unlatch
/// saved at the end) are made exactly here.
pub fn g_capacity_shaped() -> impl Strategy<Value = Vec<u8>> {
    (any::<u16>(), any::<u16>(), 0usize..=2, vec((any::<u16>(), any::<u8>(), any::<u8>()), 0..=5), any::<u64>(), any::<u8>()).prop_map(|(csel, fam, delta, foreign, seed, pos_mode)| {
        let mut caps: Vec<usize> = SYMBOLS.iter().map(|s| s.data).collect();
        caps.sort_unstable();
        caps.dedup();
        // three quarters of the cases below 460 codewords
        let family = pick(fam, 8);
        let cap = if family >= 6 && csel % 2 == 0 {
            // Base256 against ASCII on both sides of the two-byte length field
            [204usize, 280, 368, 456, 576, 252, 254, 280][pick(csel / 2, 8)]
        } else if csel % 4 != 0 {
            caps[pick(csel / 4, caps.iter().filter(|c| **c <= 456).count())]
        } else {
            caps[pick(csel / 4, caps.len())]
        };
        let cap = if caps.contains(&cap) { cap } else { 280 };
        let room = cap.saturating_sub(delta);
        let (class, n) = match family {
            0 => (11usize, room),                            // ASCII-only characters, one codeword each
            1 => (0, 2 * room),                              // digits
            2 => (1, room.saturating_sub(1) * 3 / 2),        // C40
            3 => (2, room.saturating_sub(1) * 3 / 2),        // Text
            4 => (12, room.saturating_sub(1) * 3 / 2),       // X12
            5 => (5, room.saturating_sub(1) * 4 / 3),        // EDIFACT
            6 => (8, room.saturating_sub(if room > 251 { 3 } else { 2 })), // Base256
            _ => (11, room.saturating_sub(2)),               // ASCII-only, the length Base256 would fill exactly
        };
        // the exact length and its neighbours (a pending value / an incomplete group at the end)
        let n = ((n as isize + [0isize, 0, 0, -2, -1, 1, 2][(seed % 7) as usize]).max(1) as usize).clamp(1, 3116);
        let rnd = expand(seed, n);
        let mut v: Vec<u8> = (0..n)
            .map(|i| match class {
                11 => b"{|}~`{|}"[(rnd[i] % 8) as usize],
                12 => class_char([1usize, 0, 3][(rnd[i] % 3) as usize], rnd[i] / 3),
                c => class_char(c, rnd[i]),
            })
            .collect();
        let nf = foreign.len();
        for (j, (p, fc, fv)) in foreign.into_iter().enumerate() {
            // first / middle / last positions one time in two, otherwise anywhere
            let at = if pos_mode & 1 == 0 { [0, n / 2, n - 1, n.saturating_sub(2)][j % 4] } else { pick(p, n) };
            let fclass = if family >= 6 && fc % 4 != 0 { 8 } else { [8usize, 8, 0, 1, 2, 6, 7, 11][(fc % 8) as usize] };
            v[at] = if fclass == 11 { b'~' } else { class_char(fclass, fv) };
        }
        let _ = nf;
        v
    })
}

pub fn g_bytes_short() -> BoxedStrategy<(Vec<u8>, &'static str)> {
    prop_oneof![
        2 => g_shift_tail().prop_map(|v| (v, "shift-tail")),
        4 => g_bytes_len(0, 4, 3, 8).prop_map(|v| (v, "len0-8")),
        5 => g_bytes_len(1, 8, 8, 40).prop_map(|v| (v, "len9-40")),
        2 => g_bytes_len(4, 16, 10, 120).prop_map(|v| (v, "len41-120")),
        4 => g_eod().prop_map(|v| (v, "eod-shaped")),
        2 => g_homogeneous(100).prop_map(|v| (v, "len41-120")),
        3 => g_segments(false).prop_map(|v| (v, "eod-shaped")),
        1 => g_alternating().prop_map(|v| (v, "len9-40")),
        1 => g_tokens().prop_map(|v| (v, "len9-40")),
        1 => g_b256_boundary().prop_filter_map("short variants only", |v| if v.len() < 300 { Some((v, "b256-length-boundary")) } else { None }),
    ]
    .boxed()
}

// ---------------------------------------------------------------------------------------------
// G-macro
// ---------------------------------------------------------------------------------------------

pub const HEAD05: &[u8] = b"[)>\x1e05\x1d";
pub const HEAD06: &[u8] = b"[)>\x1e06\x1d";
pub const TRAIL: &[u8] = b"\x1e\x04";

/// macro envelope strata around a body
pub fn g_macro() -> BoxedStrategy<(Vec<u8>, &'static str)> {
    (any::<u16>(), any::<bool>(), g_bytes_len(0, 6, 6, 60), any::<u8>())
        .prop_map(|(k, six, body, extra)| {
            let head = if six { HEAD06 } else { HEAD05 };
            let mut v = Vec::new();
            let stratum = match pick(k, 12) {
                10 | 11 => {
                    // a complete envelope with a few extra bytes in front of it or behind it (line
                    // terminators, controls): looks like the envelope, is not one
                    let junk: &[u8] = [&b"\r\n"[..], b"\n", b"\r", b" ", b"\0", b"\x04", b"\x1e", b"\x1e\x04", b"\t", b"A"][(extra % 10) as usize];
                    if pick(k, 12) == 10 {
                        v.extend_from_slice(head);
                        v.extend_from_slice(&body);
                        v.extend_from_slice(TRAIL);
                        v.extend_from_slice(junk);
                        "macro-envelope-plus-tail"
                    } else {
                        v.extend_from_slice(junk);
                        v.extend_from_slice(head);
                        v.extend_from_slice(&body);
                        v.extend_from_slice(TRAIL);
                        "macro-prefix-plus-envelope"
                    }
                }
                8 => {
                    // an envelope whose body starts with the (other or same) header again
                    v.extend_from_slice(head);
                    v.extend_from_slice(if extra & 1 == 0 { HEAD06 } else { HEAD05 });
                    if extra & 2 == 0 {
                        v.extend_from_slice(&body);
                    }
                    if extra & 4 == 0 {
                        v.extend_from_slice(TRAIL);
                    }
                    v.extend_from_slice(TRAIL);
                    "macro-nested-head"
                }
                9 => {
                    // header with another format digit (00..09 except the two macro formats)
                    v.extend_from_slice(head);
                    v[5] = b"0123478999"[(extra % 10) as usize];
                    v.extend_from_slice(&body);
                    v.extend_from_slice(TRAIL);
                    "macro-other-format"
                }
                0 => {
                    v.extend_from_slice(head);
                    v.extend_from_slice(&body);
                    v.extend_from_slice(TRAIL);
                    "macro-full"
                }
                1 => {
                    v.extend_from_slice(head);
                    v.extend_from_slice(&body);
                    "macro-head-only"
                }
                2 => {
                    v.extend_from_slice(&body);
                    v.extend_from_slice(TRAIL);
                    "macro-trail-only"
                }
                3 => {
                    v.extend_from_slice(head);
                    "macro-bare-head"
                }
                4 => {
                    v.extend_from_slice(head);
                    v.push(extra);
                    "macro-head-plus-1"
                }
                5 => {
                    v.extend_from_slice(head);
                    v.extend_from_slice(&body);
                    v.extend_from_slice(TRAIL);
                    v.extend_from_slice(&body);
                    v.extend_from_slice(TRAIL);
                    "macro-trail-inside"
                }
                6 => {
                    v.extend_from_slice(head);
                    v.extend_from_slice(TRAIL);
                    "macro-empty-body"
                }
                _ => {
                    // truncated header followed by trailer
                    v.extend_from_slice(&head[..(extra as usize % 7)]);
                    v.extend_from_slice(&body);
                    v.extend_from_slice(TRAIL);
                    "macro-truncated-head"
                }
            };
            (v, stratum)
        })
        .boxed()
}

// ---------------------------------------------------------------------------------------------
// G-list
// ---------------------------------------------------------------------------------------------

#[derive(Debug, Clone, Copy, PartialEq, Eq)]
pub enum ListSpec {
    Default,
    All,
    Mask(u64),
    /// resolved from a probe encode: see `resolve_fit`
    Fit(u8),
}

pub fn g_list() -> BoxedStrategy<ListSpec> {
    prop_oneof![
        4 => Just(ListSpec::Default),
        2 => Just(ListSpec::All),
        // single symbol
        2 => any::<u16>().prop_map(|r| ListSpec::Mask(1 << pick(r, 48))),
        // 2-4 symbols
        2 => vec(any::<u16>(), 2..=4).prop_map(|v| ListSpec::Mask(v.iter().fold(0u64, |m, r| m | 1 << pick(*r, 48)))),
        // random subset
        2 => any::<u64>().prop_map(|m| ListSpec::Mask(if m & ALL_MASK == 0 { 1 } else { m & ALL_MASK })),
        // sparse random subset
        1 => (any::<u64>(), any::<u64>(), any::<u64>()).prop_map(|(a, b, c)| { let m = a & b & c & ALL_MASK; ListSpec::Mask(if m == 0 { 1 << 23 } else { m }) }),
        // filters of the public API, expressed as masks
        1 => any::<u16>().prop_map(|r| {
            let k = pick(r, 4);
            let mut m = 0u64;
            for (i, s) in SYMBOLS.iter().enumerate() {
                let keep = match k { 0 => s.is_square(), 1 => !s.is_square(), 2 => s.is_square() && s.iso16022, _ => !s.is_square() && s.iso16022 };
                if keep { m |= 1 << i; }
            }
            ListSpec::Mask(m)
        }),
        6 => any::<u8>().prop_map(|k| ListSpec::Fit(k % 6)),
    ]
    .boxed()
}

/// G-fit: choose a list around the symbol that the crate picks with all 48 sizes allowed, so
/// that the unpadded length is within a few codewords of the capacity.
pub fn resolve_fit(data: &[u8], modes: u8, macros: bool, fnc1: bool, k: u8) -> u64 {
    let probe = EncCase { data: data.to_vec(), list: ALL_MASK, modes, macros, fnc1, eci: None, stratum: "probe" };
    let picked = guard(|| probe.encode()).ok().and_then(|r| r.ok()).map(|dm| sym_index(dm.size));
    let Some(idx) = picked else { return default_mask() };
    let cap = SYMBOLS[idx].data;
    // symbols ordered by capacity
    let mut order: Vec<usize> = (0..48).collect();
    order.sort_by_key(|i| (SYMBOLS[*i].data, SYMBOLS[*i].rows * SYMBOLS[*i].rows + SYMBOLS[*i].cols * SYMBOLS[*i].cols));
    let pos = order.iter().position(|i| *i == idx).unwrap();
    let smaller = order[..pos].iter().rev().find(|i| SYMBOLS[**i].data < cap).copied();
    let larger = order[pos + 1..].iter().find(|i| SYMBOLS[**i].data > cap).copied();
    let bit = |i: usize| 1u64 << i;
    match k {
        0 => bit(idx),
        1 => smaller.map(bit).unwrap_or(bit(idx)),
        2 => smaller.map(bit).unwrap_or(0) | bit(idx),
        3 => smaller.map(bit).unwrap_or(0) | bit(idx) | larger.map(bit).unwrap_or(0),
        4 => smaller.map(bit).unwrap_or(bit(idx)) | larger.map(bit).unwrap_or(0),
        _ => {
            // all symbols of the same capacity as the smaller one (tie handling) plus the picked one
            let c = smaller.map(|i| SYMBOLS[i].data).unwrap_or(cap);
            (0..48).filter(|i| SYMBOLS[*i].data == c).fold(bit(idx), |m, i| m | bit(i))
        }
    }
}

/// G-exact: prepend digit pairs (one ASCII codeword each) so that the unpadded length of the
/// crate's own encoding lands `slack` codewords below a real capacity.  End-of-data rules and the
/// symbol choice are decided exactly there, and for long inputs (one capacity per ~50 codewords)
/// fitted lists alone never get that close.  Construction by a probe encode, not rejection.
pub fn fit_pad(data: &[u8], modes: u8, k: u8) -> Vec<u8> {
    if modes & 1 == 0 && modes & 62 != 0 && data.len() <= 3000 {
        return fit_pad_without_ascii(data, modes, k);
    }
    if modes & 1 == 0 || data.len() > 3000 {
        return data.to_vec();
    }
    let probe = EncCase { data: data.to_vec(), list: ALL_MASK, modes, macros: false, fnc1: false, eci: None, stratum: "probe" };
    let Some(dm) = guard(|| probe.encode()).ok().and_then(|r| r.ok()) else { return data.to_vec() };
    let Ok(d) = refimpl::codec::ref_decode(dm.data_codewords()) else { return data.to_vec() };
    let len = d.unpadded_len();
    // 0, 1, 2 codewords below a capacity - or (k % 8 == 7) one codeword *above* it: where an encoding
    // that is one codeword longer than promised needs the next symbol
    let over = (k % 8 == 7) as usize;
    let slack = if over == 1 { 0 } else { (k % 3) as usize };
    let skip = (k / 3 % 2) as usize; // the next capacity or the one after
    let mut caps: Vec<usize> = SYMBOLS.iter().map(|s| s.data).collect();
    caps.sort_unstable();
    caps.dedup();
    // one case in eight: a capacity far enough away for a digit run of more than 256 characters in front
    let far = if k / 6 % 8 == 7 { 130 } else { 0 };
    let Some(cap) = caps.iter().filter(|c| **c + over >= len + slack + far).nth(skip) else { return data.to_vec() };
    let need = cap + over - slack - len;
    if need == 0 || need > 400 {
        return data.to_vec();
    }
    let mut v = Vec::with_capacity(data.len() + 2 * need);
    for i in 0..need {
        v.push(b'0' + ((i * 7 + k as usize) % 10) as u8);
        v.push(b'0' + ((i * 3 + 1) % 10) as u8);
    }
    // a separator keeps the pairs from merging with a leading digit of the body
    v.extend_from_slice(data);
    v
}

/// G-exact for mode sets without ASCII: the filler in front of the data is made of units one of the
/// enabled modes carries (three C40 / Text / X12 characters = 2 codewords, four EDIFACT characters = 3,
/// one byte >= 128 in Base256 = 1); because a unit is not one codeword and the filler may change the
/// plan, the amount is found by repeated probe encodes (at most 8) instead of one subtraction.
fn fit_pad_without_ascii(data: &[u8], modes: u8, k: u8) -> Vec<u8> {
    let units: [(u8, &[u8], usize); 5] = [(2, b"ABC", 2), (4, b"abc", 2), (8, b"A1B", 2), (16, b"ABCD", 3), (32, b"\xC1", 1)];
    let enabled: Vec<&(u8, &[u8], usize)> = units.iter().filter(|u| modes & u.0 != 0).collect();
    if enabled.is_empty() {
        return data.to_vec();
    }
    let (_, unit, per) = *enabled[(k as usize / 6) % enabled.len()];
    let slack = (k % 3) as usize;
    let mut caps: Vec<usize> = SYMBOLS.iter().map(|s| s.data).collect();
    caps.sort_unstable();
    caps.dedup();
    let len_of = |v: &[u8]| -> Option<usize> {
        let probe = EncCase { data: v.to_vec(), list: ALL_MASK, modes, macros: false, fnc1: false, eci: None, stratum: "probe" };
        let dm = guard(|| probe.encode()).ok().and_then(|r| r.ok())?;
        Some(refimpl::codec::ref_decode(dm.data_codewords()).ok()?.unpadded_len())
    };
    let Some(len0) = len_of(data) else { return data.to_vec() };
    let Some(mut target) = caps.iter().filter(|c| **c >= len0 + slack).nth((k / 3 % 2) as usize).map(|c| c - slack) else { return data.to_vec() };
    let mut n_units = 0usize;
    let mut cur = data.to_vec();
    let mut len = len0;
    for _ in 0..8 {
        if len == target {
            break;
        }
        if len > target {
            // overshot: aim at the next capacity
            match caps.iter().find(|c| **c >= len + slack) {
                Some(c) => target = c - slack,
                None => break,
            }
            if len == target {
                break;
            }
        }
        let need = target - len;
        if need > 400 {
            break;
        }
        n_units += (need / per).max(1);
        let mut v = Vec::with_capacity(data.len() + n_units * unit.len());
        for _ in 0..n_units {
            v.extend_from_slice(unit);
        }
        v.extend_from_slice(data);
        match len_of(&v) {
            Some(l) => {
                cur = v;
                len = l;
            }
            None => break,
        }
    }
    cur
}

// ---------------------------------------------------------------------------------------------
// G-modes
// ---------------------------------------------------------------------------------------------

/// non-empty mode subsets, extra weight on all modes, singletons, sets without ASCII and
/// complements of one mode
pub fn g_modes() -> BoxedStrategy<u8> {
    prop_oneof![
        4 => Just(63u8),
        3 => (1u8..=63),
        2 => any::<u16>().prop_map(|r| 1u8 << pick(r, 6)),
        3 => (1u8..=31).prop_map(|m| m << 1),               // without ASCII
        2 => any::<u16>().prop_map(|r| 63 & !(1u8 << pick(r, 6))), // complement of one mode
        1 => any::<u16>().prop_map(|r| 1 | (1u8 << pick(r, 6))),  // ASCII + one
    ]
    .boxed()
}

/// all 64 subsets (C11 includes the empty set)
pub fn g_modes64() -> BoxedStrategy<u8> {
    prop_oneof![
        1 => Just(0u8),
        12 => g_modes(),
    ]
    .boxed()
}

// ---------------------------------------------------------------------------------------------
// encoder cases
// ---------------------------------------------------------------------------------------------

#[derive(Debug, Clone, Copy)]
pub struct EncGenOpts {
    pub long_weight: u32,
    pub macro_weight: u32,
    pub allow_fnc1: bool,
    pub allow_macros_flag: bool,
    pub eci: bool,
    pub modes64: bool,
    pub allow_empty_list: bool,
    pub short_only: bool,
}

impl Default for EncGenOpts {
    fn default() -> Self {
        EncGenOpts { long_weight: 1, macro_weight: 2, allow_fnc1: true, allow_macros_flag: true, eci: false, modes64: false, allow_empty_list: false, short_only: false }
    }
}

fn exact_label(stratum: &'static str) -> &'static str {
    match stratum {
        "len0-8" => "len0-8+exact",
        "len9-40" => "len9-40+exact",
        "len41-300" | "len41-120" => "len41-300+exact",
        "len301-3116" => "len301-3116+exact",
        "eod-shaped" => "eod-shaped+exact",
        "b256-length-boundary" => "b256-length-boundary+exact",
        "shift-tail" => "shift-tail+exact",
        other => other,
    }
}

/// Mode sets without ASCII (usually with EDIFACT): a lead segment for one of the other enabled modes with
/// a length at its group / length-field boundaries, a run of EDIFACT-range characters, a tail of one to
/// four characters of which at least one is outside the EDIFACT range; three times in four G-exact.  The
/// end of such data is where the "rest as ASCII" forms are decided from the planner's and the encoder's
/// own count of the codewords written so far - across every mode switch before.
pub fn g_noascii_tail_case(short_only: bool) -> BoxedStrategy<EncCase> {
    (any::<u16>(), any::<u16>(), any::<u16>(), 0usize..=44, vec((any::<u8>(), any::<u8>()), 1..=4), any::<u64>(), any::<u8>(), g_list())
        .prop_map(move |(msel, lsel, llen, mid, tail, seed, fp, list)| {
            let others: [u8; 10] = [2, 4, 8, 32, 2 | 4, 2 | 32, 4 | 32, 8 | 32, 2 | 4 | 8 | 32, 4 | 8];
            let other = others[pick(msel, 10)];
            let modes = if msel % 5 == 4 && other.count_ones() > 1 { other } else { other | 16 };
            // the lead is written for one of the other modes
            let cands: Vec<u8> = [2u8, 4, 8, 32].iter().copied().filter(|m| other & m != 0).collect();
            let lead_mode = cands[pick(lsel, cands.len())];
            let lead_len = if lead_mode == 32 {
                if short_only { [1usize, 2, 3, 5, 8, 11][pick(llen, 6)] } else { [1usize, 2, 3, 5, 249, 250, 251, 252, 250, 255, 11, 500][pick(llen, 12)] }
            } else {
                1 + pick(llen, 14)
            };
            let rnd = expand(seed, lead_len + mid + 8);
            let mut data: Vec<u8> = (0..lead_len)
                .map(|i| match lead_mode {
                    2 => class_char([1, 0][(rnd[i] & 1) as usize], rnd[i] >> 1),
                    4 => class_char([2, 0][(rnd[i] & 1) as usize], rnd[i] >> 1),
                    8 => class_char([1, 0, 3][(rnd[i] % 3) as usize], rnd[i] / 3),
                    _ => class_char(8, rnd[i]),
                })
                .collect();
            data.extend((0..mid).map(|i| class_char([1, 5, 1, 0][(rnd[lead_len + i] & 3) as usize], rnd[lead_len + i] >> 2)));
            let n_tail = tail.len();
            for (i, (c, r)) in tail.into_iter().enumerate() {
                // the first tail character is never an EDIFACT one
                let class = if i == 0 || c % 3 != 0 { [2usize, 7, 8, 2, 10][(c % 5) as usize] } else { 5 };
                let mut ch = class_char(class, r);
                if i == 0 && (32..=94).contains(&ch) {
                    ch = b'a' + r % 26;
                }
                data.push(ch);
            }
            let _ = n_tail;
            let data = if fp % 4 != 0 { fit_pad(&data, modes, fp / 4) } else { data };
            let list = match list {
                ListSpec::Default => default_mask(),
                ListSpec::All => ALL_MASK,
                ListSpec::Mask(_) => default_mask(),
                ListSpec::Fit(k) => resolve_fit(&data, modes, false, false, k),
            };
            EncCase { data, list, modes, macros: false, fnc1: false, eci: None, stratum: "noascii-lead-edifact-tail" }
        })
        .boxed()
}

pub fn g_enc_case(o: EncGenOpts) -> BoxedStrategy<EncCase> {
    prop_oneof![
        24 => g_enc_case_main(o),
        1 => g_noascii_tail_case(o.short_only),
    ]
    .boxed()
}

fn g_enc_case_main(o: EncGenOpts) -> BoxedStrategy<EncCase> {
    let data = if o.short_only {
        prop_oneof![
            10 => g_bytes_short(),
            o.macro_weight => g_macro(),
        ]
        .boxed()
    } else {
        prop_oneof![
            10 => g_bytes(o.long_weight),
            o.macro_weight => g_macro(),
        ]
        .boxed()
    };
    let modes = if o.modes64 { g_modes64() } else { g_modes() };
    // flags: (macros, fnc1) -- weights favour the defaults
    let flags = (any::<u8>(), any::<u8>()).prop_map(move |(a, b)| {
        let macros = if o.allow_macros_flag { a % 4 != 0 } else { false };
        let fnc1 = o.allow_fnc1 && b % 5 == 0;
        (macros, fnc1)
    });
    let eci = if o.eci {
        prop_oneof![
            3 => Just(None),
            1 => (0u32..=126).prop_map(Some),
            1 => (127u32..=16382).prop_map(Some),
            1 => (16383u32..=999_999).prop_map(Some),
            1 => prop_oneof![Just(0u32), Just(126), Just(127), Just(16382), Just(16383), Just(999_999), Just(26)].prop_map(Some),
        ]
        .boxed()
    } else {
        Just(None).boxed()
    };
    let empty = if o.allow_empty_list { (0u8..20).boxed() } else { Just(1u8).boxed() };
    (data, g_list(), modes, flags, eci, empty, any::<u8>())
        .prop_map(move |((data, stratum), list, modes, (macros, fnc1), eci, empty, fp)| {
            // G-exact on a quarter of the non-macro cases (all Base256 length-boundary cases)
            let (data, stratum) = if !stratum.starts_with("macro") && (fp % 4 == 0 || stratum == "b256-length-boundary") && !data.is_empty() {
                (fit_pad(&data, modes, fp / 4), exact_label(stratum))
            } else {
                (data, stratum)
            };
            let list = if empty == 0 {
                0
            } else {
                match list {
                    ListSpec::Default => default_mask(),
                    ListSpec::All => ALL_MASK,
                    ListSpec::Mask(m) => m,
                    ListSpec::Fit(k) => resolve_fit(&data, modes, macros, fnc1, k),
                }
            };
            // G-max: about 3 % of the cases are re-drawn as "as many characters as the largest listed
            // symbol can possibly hold": digit pairs (the densest form, two characters per codeword)
            // filling it exactly or ending 1..3 characters short, optionally with one non-digit.
            // This is where the encoder's early capacity exits are decided.
            let (data, stratum) = if fp % 32 == 5 && list != 0 && modes & 1 == 1 {
                let big = (0..48).filter(|i| list >> i & 1 == 1).map(|i| SYMBOLS[i].data).max().unwrap_or(3);
                if big <= 180 || !o.short_only {
                    let header = (fnc1 as usize) + eci.map_or(0, |e| if e <= 126 { 2 } else if e <= 16382 { 3 } else { 4 });
                    let room = big.saturating_sub(header);
                    let k = (fp / 32) as usize % 5; // characters below the maximum (4: one above)
                    let n = if k == 4 { 2 * room + 1 } else { (2 * room).saturating_sub(k) };
                    let mut d: Vec<u8> = (0..n).map(|i| b'0' + ((i * 7 + fp as usize) % 10) as u8).collect();
                    if fp & 0x40 != 0 && n > 2 {
                        d[n / 2] = b'A';
                    }
                    (d, "max-digits")
                } else {
                    (data, stratum)
                }
            } else {
                (data, stratum)
            };
            EncCase { data, list, modes, macros, fnc1, eci, stratum }
        })
        .boxed()
}
