//! Runner shared by all properties: sharded proptest driver, enumerated stages, statistics,
//! evidence / replay writers, known findings, panic guard and watchdog.

use proptest::strategy::Strategy;
use proptest::test_runner::{Config, RngSeed, TestCaseError, TestError, TestRunner};
use serde_json::{json, Map, Value};
use std::cell::{Cell, RefCell};
use std::collections::{BTreeMap, HashSet};
use std::panic::{catch_unwind, AssertUnwindSafe};
use std::path::PathBuf;
use std::sync::atomic::{AtomicBool, AtomicU64, Ordering};
use std::sync::{Arc, Mutex, OnceLock};
use std::time::{Duration, Instant};

// -------------------------------------------------------------------------------------------
// verdicts
// -------------------------------------------------------------------------------------------

#[derive(Debug, Clone)]
pub struct Pass {
    /// class label(s) of the case (generator stratum / behaviour class)
    pub class: String,
    /// non-trivial by the property's stated rule
    pub nontrivial: bool,
    /// extra counters (name, increment)
    pub counters: Vec<(&'static str, u64)>,
}

impl Pass {
    pub fn new(class: impl Into<String>, nontrivial: bool) -> Self {
        Pass { class: class.into(), nontrivial, counters: Vec::new() }
    }
    pub fn count(mut self, name: &'static str, n: u64) -> Self {
        if n > 0 {
            self.counters.push((name, n));
        }
        self
    }
    pub fn max(mut self, name: &'static str, n: u64) -> Self {
        self.counters.push((name, n | MAX_FLAG));
        self
    }
}

/// counters whose name starts with "max_" are merged with max instead of +
const MAX_FLAG: u64 = 1 << 63;

#[derive(Debug, Clone)]
pub enum Verdict {
    Pass(Pass),
    /// the property is violated on this case
    Fail(String),
    /// the case is a listed known finding (excluded by construction)
    Known(String),
    /// the engine itself is in doubt (oracle self-check failed): abort as inconclusive
    EngineBug(String),
}

pub fn fail<T: Into<String>>(s: T) -> Verdict {
    Verdict::Fail(s.into())
}

/// A generated / enumerated case: must be printable as JSON (replay file) and hashable into a
/// fingerprint for distinct counting.
pub trait Case: Clone + std::fmt::Debug + Send + 'static {
    fn to_json(&self) -> Value;
    fn fingerprint(&self) -> u64 {
        fnv64(self.to_json().to_string().as_bytes())
    }
}

pub fn fnv64(b: &[u8]) -> u64 {
    let mut h: u64 = 0xcbf29ce484222325;
    for x in b {
        h ^= *x as u64;
        h = h.wrapping_mul(0x100000001b3);
    }
    h
}

pub fn splitmix(mut x: u64) -> u64 {
    x = x.wrapping_add(0x9E3779B97F4A7C15);
    let mut z = x;
    z = (z ^ (z >> 30)).wrapping_mul(0xBF58476D1CE4E5B9);
    z = (z ^ (z >> 27)).wrapping_mul(0x94D049BB133111EB);
    z ^ (z >> 31)
}

// -------------------------------------------------------------------------------------------
// panic guard
// -------------------------------------------------------------------------------------------

thread_local! {
    static IN_GUARD: Cell<u32> = Cell::new(0);
    static LAST_PANIC: RefCell<String> = RefCell::new(String::new());
}

pub fn install_panic_hook() {
    let default = std::panic::take_hook();
    std::panic::set_hook(Box::new(move |info| {
        let guarded = IN_GUARD.with(|g| g.get()) > 0;
        if guarded {
            let msg = if let Some(s) = info.payload().downcast_ref::<&str>() {
                s.to_string()
            } else if let Some(s) = info.payload().downcast_ref::<String>() {
                s.clone()
            } else {
                "<non-string panic payload>".to_string()
            };
            let loc = info.location().map(|l| format!("{}:{}", l.file(), l.line())).unwrap_or_default();
            LAST_PANIC.with(|p| *p.borrow_mut() = format!("{} at {}", msg, loc));
        } else {
            default(info);
        }
    }));
}

/// Run code of the crate under test; a panic becomes `Err(message at file:line)`.
pub fn guard<T>(f: impl FnOnce() -> T) -> Result<T, String> {
    IN_GUARD.with(|g| g.set(g.get() + 1));
    let r = catch_unwind(AssertUnwindSafe(f));
    IN_GUARD.with(|g| g.set(g.get() - 1));
    r.map_err(|_| LAST_PANIC.with(|p| p.borrow().clone()))
}

// -------------------------------------------------------------------------------------------
// watchdog
// -------------------------------------------------------------------------------------------

struct Slot {
    started: Instant,
    stage: &'static str,
    kind: &'static str,
    /// lazily rendered (only when the watchdog fires)
    case: Box<dyn Fn() -> Value + Send>,
}

static SLOTS: OnceLock<Mutex<Vec<Option<Slot>>>> = OnceLock::new();
thread_local! { static MY_SLOT: Cell<usize> = Cell::new(usize::MAX); }

fn slots() -> &'static Mutex<Vec<Option<Slot>>> {
    SLOTS.get_or_init(|| Mutex::new(Vec::new()))
}

fn slot_enter<C: Case>(stage: &'static str, kind: &'static str, c: &C) {
    let cc = c.clone();
    let case: Box<dyn Fn() -> Value + Send> = Box::new(move || cc.to_json());
    let mut s = slots().lock().unwrap();
    let idx = MY_SLOT.with(|m| {
        if m.get() == usize::MAX {
            s.push(None);
            m.set(s.len() - 1);
        }
        m.get()
    });
    s[idx] = Some(Slot { started: Instant::now(), stage, kind, case });
}

/// between two cases: the strategy is producing the next one (generators may call the crate for probe
/// encodes; if such a call does not return, the watchdog must see it)
fn slot_generating(stage: &'static str) {
    let case: Box<dyn Fn() -> Value + Send> = Box::new(|| json!({"note": "no case: the generator of the next case was running (a probe call of the crate inside a generator did not return)"}));
    let mut s = slots().lock().unwrap();
    let idx = MY_SLOT.with(|m| {
        if m.get() == usize::MAX {
            s.push(None);
            m.set(s.len() - 1);
        }
        m.get()
    });
    s[idx] = Some(Slot { started: Instant::now(), stage, kind: "generator", case });
}

fn slot_leave() {
    let mut s = slots().lock().unwrap();
    let idx = MY_SLOT.with(|m| m.get());
    if idx != usize::MAX {
        s[idx] = None;
    }
}

pub const WATCHDOG_SECS: u64 = 60;

/// resident set size of a process in MiB (Linux /proc), 0 if unknown
fn rss_mb(pid: Option<u32>) -> u64 {
    let path = match pid {
        Some(p) => format!("/proc/{}/statm", p),
        None => "/proc/self/statm".to_string(),
    };
    std::fs::read_to_string(path).ok().and_then(|s| s.split_whitespace().nth(1).and_then(|x| x.parse::<u64>().ok())).map(|pages| pages * 4096 / (1 << 20)).unwrap_or(0)
}

/// Supervisor for the isolated re-run of a saved case (properties that state termination): the case
/// runs in a child process with nothing else going on; exit code 1 (VIOLATION) only if that child
/// again exceeds the time limit or the memory budget, otherwise 2 (inconclusive).
pub fn supervise_isolated(ctx: &Ctx, file: &std::path::Path) -> i32 {
    let exe = std::env::current_exe().unwrap();
    let mut child = match std::process::Command::new(exe)
        .arg(&ctx.property)
        .arg("--replay")
        .arg(file)
        .arg("--root")
        .arg(&ctx.root)
        .stdout(std::process::Stdio::null())
        .stderr(std::process::Stdio::null())
        .spawn()
    {
        Ok(c) => c,
        Err(e) => {
            println!("INCONCLUSIVE property={} cannot spawn the isolated re-run: {}", ctx.property, e);
            return 2;
        }
    };
    let t0 = Instant::now();
    loop {
        match child.try_wait() {
            Ok(Some(st)) => {
                // a child killed by a signal (abort after a failed allocation under the address-space limit)
                use std::os::unix::process::ExitStatusExt;
                if st.signal().is_some() {
                    println!("the isolated re-run of the saved case was terminated by signal {:?} (abort after a failed allocation under the address-space limit, or a stack overflow)", st.signal());
                    println!("VIOLATION property={} replay={}", ctx.property, file.display());
                    return 1;
                }
                println!("INCONCLUSIVE property={} watchdog fired but the isolated re-run finished in {:.1}s replay={}", ctx.property, t0.elapsed().as_secs_f64(), file.display());
                return 2;
            }
            Ok(None) => {
                if rss_mb(Some(child.id())) > rss_limit_mb() {
                    let _ = child.kill();
                    let _ = child.wait();
                    println!("the isolated re-run of the saved case allocated more than {} MiB (the input is a few kilobytes at most)", rss_limit_mb());
                    println!("VIOLATION property={} replay={}", ctx.property, file.display());
                    return 1;
                }
                if t0.elapsed() > Duration::from_secs(WATCHDOG_SECS) {
                    let _ = child.kill();
                    let _ = child.wait();
                    println!("the isolated re-run of the saved case did not terminate within {}s", WATCHDOG_SECS);
                    println!("VIOLATION property={} replay={}", ctx.property, file.display());
                    return 1;
                }
                std::thread::sleep(Duration::from_millis(100));
            }
            Err(_) => return 2,
        }
    }
}

/// memory budget of one check process (MiB); normal use stays below 2 GiB
pub fn rss_limit_mb() -> u64 {
    std::env::var("VERIF_RSS_LIMIT_MB").ok().and_then(|s| s.parse().ok()).unwrap_or(10_000)
}

/// Starts the monitor thread: a single case running longer than WATCHDOG_SECS stops the run as
/// INCONCLUSIVE (exit 2).  For properties that state termination (C05, C11) the saved case is
/// re-executed once in a fresh child process; only if that isolated run exceeds the limit again
/// is it reported as a violation.
pub fn start_watchdog(ctx: Arc<Ctx>) {
    std::thread::spawn(move || loop {
        std::thread::sleep(Duration::from_millis(500));
        let mut hit = {
            let s = slots().lock().unwrap();
            s.iter().flatten().find(|sl| sl.started.elapsed() > Duration::from_secs(WATCHDOG_SECS)).map(|sl| (sl.stage.to_string(), sl.kind.to_string(), (sl.case)()))
        };
        // memory: a crate call that allocates without bound is treated like one that does not return
        // (the case that has been running longest is the suspect)
        let mut memory = false;
        if hit.is_none() && rss_mb(None) > rss_limit_mb() {
            let s = slots().lock().unwrap();
            hit = s.iter().flatten().max_by_key(|sl| sl.started.elapsed()).map(|sl| (sl.stage.to_string(), sl.kind.to_string(), (sl.case)()));
            memory = true;
            if hit.is_none() {
                println!("INCONCLUSIVE property={} the checker exceeded its memory budget of {} MiB outside any case", ctx.property, rss_limit_mb());
                std::process::exit(2);
            }
        }
        if let Some((stage, kind, case)) = hit {
            if !ctx.violations.lock().unwrap().is_empty() {
                // a violation has already been established by a case that did finish; the case that is
                // still running adds nothing to the verdict
                ctx.note(format!("stopped while a case of stage {} was still running after {} s (verdict already established)", stage, WATCHDOG_SECS));
                let (rule, assumptions) = ctx.meta.get().copied().unwrap_or(("", &[]));
                let code = ctx.finish(rule, assumptions, Map::new());
                std::process::exit(code);
            }
            if kind == "generator" {
                println!("INCONCLUSIVE property={} a generator of stage {} did not produce its next case within {} s (a probe call of the crate inside the generator does not return){}", ctx.property, stage, WATCHDOG_SECS, if memory { " / memory budget exceeded" } else { "" });
                std::process::exit(2);
            }
            let path = ctx.write_replay(&stage, &kind, &case, if memory { "the checker exceeded its memory budget while this case was running (suspected unbounded allocation)" } else { "single case exceeded the watchdog limit (suspected hang)" }, "watchdog");
            if ctx.termination_is_property {
                // isolated re-execution: this process is *replaced* by a supervisor (exec), which frees
                // whatever the suspect call has allocated and cannot be taken down by it
                use std::os::unix::process::CommandExt;
                let exe = std::env::current_exe().unwrap();
                let err = std::process::Command::new(exe)
                    .arg(&ctx.property)
                    .arg("--isolated")
                    .arg(&path)
                    .arg("--profile")
                    .arg(&ctx.profile)
                    .arg("--root")
                    .arg(&ctx.root)
                    .arg("--tier")
                    .arg(if ctx.quick() { "quick" } else { "thorough" })
                    .arg("--seed")
                    .arg((ctx.seed as i64).to_string())
                    .exec();
                println!("INCONCLUSIVE property={} cannot start the isolated re-run: {}", ctx.property, err);
                std::process::exit(2);
            } else {
                println!("INCONCLUSIVE property={} {} replay={}", ctx.property, if memory { "suspected-unbounded-allocation" } else { "suspected-hang" }, path.display());
                std::process::exit(2);
            }
        }
    });
}

// -------------------------------------------------------------------------------------------
// statistics
// -------------------------------------------------------------------------------------------

#[derive(Default)]
pub struct Stats {
    pub evaluations: u64,
    pub nontrivial: u64,
    pub distinct_nontrivial: HashSet<u64>,
    pub classes: BTreeMap<String, u64>,
    pub counters: BTreeMap<String, u64>,
    pub maxima: BTreeMap<String, u64>,
    pub excluded_known: u64,
    pub samples: BTreeMap<String, Vec<Value>>,
}

impl Stats {
    fn record<C: Case>(&mut self, stage: &str, case: &C, p: &Pass) {
        self.evaluations += 1;
        let cls = format!("{}/{}", stage, p.class);
        let n = self.classes.entry(cls.clone()).or_insert(0);
        *n += 1;
        if p.nontrivial {
            self.nontrivial += 1;
            self.distinct_nontrivial.insert(case.fingerprint());
        }
        for (k, v) in &p.counters {
            if v & MAX_FLAG != 0 {
                let e = self.maxima.entry(k.to_string()).or_insert(0);
                *e = (*e).max(v & !MAX_FLAG);
            } else {
                *self.counters.entry(k.to_string()).or_insert(0) += v;
            }
        }
        // keep the first two samples per class, prefer non-trivial ones
        let e = self.samples.entry(cls).or_default();
        if e.len() < 2 && (p.nontrivial || e.is_empty()) {
            let mut v = case.to_json();
            truncate_value(&mut v);
            e.push(v);
        }
    }
    fn merge(&mut self, o: Stats) {
        self.evaluations += o.evaluations;
        self.nontrivial += o.nontrivial;
        self.distinct_nontrivial.extend(o.distinct_nontrivial);
        for (k, v) in o.classes {
            *self.classes.entry(k).or_insert(0) += v;
        }
        for (k, v) in o.counters {
            *self.counters.entry(k).or_insert(0) += v;
        }
        for (k, v) in o.maxima {
            let e = self.maxima.entry(k).or_insert(0);
            *e = (*e).max(v);
        }
        self.excluded_known += o.excluded_known;
        for (k, v) in o.samples {
            let e = self.samples.entry(k).or_default();
            for s in v {
                if e.len() < 2 {
                    e.push(s);
                }
            }
        }
    }
}

/// long hex strings in samples are shortened so that evidence files stay readable
fn truncate_value(v: &mut Value) {
    match v {
        Value::String(s) if s.len() > 160 => {
            let n = s.len();
            let mut cut = 120;
            while !s.is_char_boundary(cut) {
                cut -= 1;
            }
            s.truncate(cut);
            s.push_str(&format!("...({} chars)", n));
        }
        Value::Array(a) => {
            if a.len() > 64 {
                let n = a.len();
                a.truncate(48);
                a.push(json!(format!("...({} items)", n)));
            }
            a.iter_mut().for_each(truncate_value)
        }
        Value::Object(o) => o.values_mut().for_each(truncate_value),
        _ => {}
    }
}

// -------------------------------------------------------------------------------------------
// known findings
// -------------------------------------------------------------------------------------------

#[derive(Debug, Clone)]
pub struct Finding {
    pub property: String,
    pub status: String, // "open" | "fixed"
    pub signature: String,
    pub what: String,
    /// for open findings: the replayable case
    pub kind: Option<String>,
    pub case: Option<Value>,
}

pub fn load_findings(root: &std::path::Path) -> Vec<Finding> {
    let p = root.join("known_findings.json");
    let Ok(txt) = std::fs::read_to_string(&p) else { return Vec::new() };
    let v: Value = serde_json::from_str(&txt).expect("known_findings.json must be valid JSON");
    let mut out = Vec::new();
    for e in v["findings"].as_array().cloned().unwrap_or_default() {
        out.push(Finding {
            property: e["property"].as_str().unwrap_or("").to_string(),
            status: e["status"].as_str().unwrap_or("").to_string(),
            signature: e["signature"].as_str().unwrap_or("").to_string(),
            what: e["what"].as_str().unwrap_or("").to_string(),
            kind: e["kind"].as_str().map(|s| s.to_string()),
            case: e.get("case").cloned().filter(|c| !c.is_null()),
        });
    }
    out
}

// -------------------------------------------------------------------------------------------
// context
// -------------------------------------------------------------------------------------------

#[derive(Debug, Clone, Copy, PartialEq, Eq)]
pub enum Tier {
    Quick,
    Thorough,
}

pub struct Violation {
    pub stage: String,
    pub reason: String,
    pub replay: PathBuf,
}

pub struct Ctx {
    pub property: String,
    pub tier: Tier,
    pub seed: u64,
    pub threads: usize,
    pub root: PathBuf,
    pub profile: String,
    pub termination_is_property: bool,
    pub stats: Mutex<Stats>,
    pub violations: Mutex<Vec<Violation>>,
    pub inconclusive: Mutex<Vec<String>>,
    pub known_open: Vec<Finding>,
    pub known_hits: Mutex<BTreeMap<String, u64>>,
    pub exhaustive_parts: Mutex<Vec<String>>,
    pub notes: Mutex<Vec<String>>,
    /// reports of the coverage-guided stage (one object per fuzz target)
    pub fuzz: Mutex<Vec<Value>>,
    pub started: Instant,
    /// (rule, assumptions) of the property, set by main so that the watchdog can write the evidence
    pub meta: OnceLock<(&'static str, &'static [&'static str])>,
    pub stop: AtomicBool,
    replay_counter: AtomicU64,
}

impl Ctx {
    pub fn new(property: &str, tier: Tier, seed: u64, root: PathBuf, profile: &str) -> Self {
        let known_open = load_findings(&root).into_iter().filter(|f| f.property == property && f.status == "open").collect();
        Ctx {
            property: property.to_string(),
            tier,
            seed,
            threads: std::env::var("VERIF_THREADS").ok().and_then(|s| s.parse().ok()).unwrap_or(16),
            root,
            profile: profile.to_string(),
            termination_is_property: property == "C05" || property == "C11",
            stats: Mutex::new(Stats::default()),
            violations: Mutex::new(Vec::new()),
            inconclusive: Mutex::new(Vec::new()),
            known_open,
            known_hits: Mutex::new(BTreeMap::new()),
            exhaustive_parts: Mutex::new(Vec::new()),
            notes: Mutex::new(Vec::new()),
            fuzz: Mutex::new(Vec::new()),
            started: Instant::now(),
            meta: OnceLock::new(),
            stop: AtomicBool::new(false),
            replay_counter: AtomicU64::new(0),
        }
    }

    pub fn quick(&self) -> bool {
        self.tier == Tier::Quick
    }

    /// case count for a stage: (quick, thorough)
    pub fn cases(&self, quick: u64, thorough: u64) -> u64 {
        let n = if self.quick() { quick } else { thorough };
        // VERIF_SCALE lets a developer shrink the work for smoke tests (percent)
        match std::env::var("VERIF_SCALE").ok().and_then(|s| s.parse::<u64>().ok()) {
            Some(p) => (n * p / 100).max(16),
            None => n,
        }
    }

    pub fn note(&self, s: impl Into<String>) {
        self.notes.lock().unwrap().push(s.into());
    }

    pub fn is_known(&self, signature: &str) -> Option<&Finding> {
        self.known_open.iter().find(|f| f.signature == signature)
    }

    pub fn write_replay(&self, stage: &str, kind: &str, case: &Value, reason: &str, tag: &str) -> PathBuf {
        let dir = self.root.join("replays");
        let _ = std::fs::create_dir_all(&dir);
        let h = fnv64(format!("{}{}{}", kind, case, reason).as_bytes());
        let n = self.replay_counter.fetch_add(1, Ordering::SeqCst);
        let path = dir.join(format!("{}-{}-{:08x}-{}.json", self.property, tag, h as u32, n));
        let v = json!({
            "property": self.property,
            "stage": stage,
            "kind": kind,
            "case": case,
            "observed": reason,
            "seed": self.seed,
            "tier": if self.quick() { "quick" } else { "thorough" },
            "profile": self.profile,
            "repo_commit": repo_commit(),
        });
        std::fs::write(&path, serde_json::to_string_pretty(&v).unwrap()).expect("write replay");
        path
    }

    fn report_violation(&self, stage: &str, kind: &str, case: &Value, reason: &str) {
        let path = self.write_replay(stage, kind, case, reason, "fail");
        eprintln!("[{}] stage {}: {}", self.property, stage, reason);
        self.violations.lock().unwrap().push(Violation { stage: stage.to_string(), reason: reason.to_string(), replay: path });
    }

    fn report_known(&self, sig: &str) {
        *self.known_hits.lock().unwrap().entry(sig.to_string()).or_insert(0) += 1;
    }

    pub fn engine_bug(&self, stage: &str, kind: &str, case: &Value, reason: &str) {
        let path = self.write_replay(stage, kind, case, reason, "engine");
        self.inconclusive.lock().unwrap().push(format!("stage {}: oracle self-check failed: {} (case saved to {})", stage, reason, path.display()));
        self.stop.store(true, Ordering::SeqCst);
    }

    // ---------------------------------------------------------------------------------------
    // enumerated stage (sequential iterator, work distributed over threads in chunks)
    // ---------------------------------------------------------------------------------------
    pub fn run_enumerated<C, F>(&self, stage: &'static str, kind: &'static str, cases: Vec<C>, exhaustive: Option<&str>, check: F)
    where
        C: Case + Sync,
        F: Fn(&C) -> Verdict + Sync,
    {
        if self.stop.load(Ordering::SeqCst) || !self.violations.lock().unwrap().is_empty() {
            return;
        }
        let n = cases.len();
        let next = AtomicU64::new(0);
        let first_fail: Mutex<Option<(usize, String)>> = Mutex::new(None);
        let chunk = ((n / (self.threads * 8)).max(1)) as u64;
        std::thread::scope(|sc| {
            for _ in 0..self.threads.min(n.max(1)) {
                sc.spawn(|| {
                    let mut local = Stats::default();
                    loop {
                        let start = next.fetch_add(chunk, Ordering::SeqCst) as usize;
                        if start >= n || self.stop.load(Ordering::SeqCst) || first_fail.lock().unwrap().is_some() {
                            break;
                        }
                        for i in start..(start + chunk as usize).min(n) {
                            let c = &cases[i];
                            slot_enter(stage, kind, c);
                            let v = guard(|| check(c));
                            slot_leave();
                            match v {
                                Ok(Verdict::Pass(p)) => local.record(stage, c, &p),
                                Ok(Verdict::Known(sig)) => {
                                    local.excluded_known += 1;
                                    self.report_known(&sig);
                                }
                                Ok(Verdict::Fail(r)) => {
                                    let mut f = first_fail.lock().unwrap();
                                    if f.as_ref().map_or(true, |(j, _)| i < *j) {
                                        *f = Some((i, r));
                                    }
                                }
                                Ok(Verdict::EngineBug(r)) => self.engine_bug(stage, kind, &c.to_json(), &r),
                                Err(p) => self.engine_bug(stage, kind, &c.to_json(), &format!("harness panic: {}", p)),
                            }
                        }
                    }
                    self.stats.lock().unwrap().merge(local);
                });
            }
        });
        if let Some((i, r)) = first_fail.into_inner().unwrap() {
            self.report_violation(stage, kind, &cases[i].to_json(), &r);
        } else if let Some(what) = exhaustive {
            self.exhaustive_parts.lock().unwrap().push(format!("{}: {} ({} cases)", stage, what, n));
        }
    }

    // ---------------------------------------------------------------------------------------
    // generated stage (proptest, sharded)
    // ---------------------------------------------------------------------------------------
    pub fn run_generated<C, S, M, F>(&self, stage: &'static str, kind: &'static str, total_cases: u64, make: M, check: F)
    where
        C: Case,
        S: Strategy<Value = C>,
        M: Fn() -> S + Sync,
        F: Fn(&C) -> Verdict + Sync,
    {
        if self.stop.load(Ordering::SeqCst) || !self.violations.lock().unwrap().is_empty() {
            return;
        }
        let shards = self.threads as u64;
        let per = ((total_cases + shards - 1) / shards).max(1);
        let stage_h = fnv64(format!("{}/{}", self.property, stage).as_bytes());
        let failures: Mutex<Vec<(u64, String, Value)>> = Mutex::new(Vec::new());
        let stage_stop = AtomicBool::new(false);
        std::thread::scope(|sc| {
            for shard in 0..shards {
                let failures = &failures;
                let stage_stop = &stage_stop;
                let make = &make;
                let check = &check;
                sc.spawn(move || {
                    let mut cfg = Config::default();
                    cfg.cases = per as u32;
                    cfg.failure_persistence = None;
                    cfg.rng_seed = RngSeed::Fixed(splitmix(self.seed ^ splitmix(stage_h ^ shard.wrapping_mul(0x9E37))));
                    cfg.max_shrink_iters = 20_000;
                    cfg.max_global_rejects = 1_000_000;
                    cfg.verbose = 0;
                    let mut runner = TestRunner::new(cfg);
                    let local = RefCell::new(Stats::default());
                    let failed = Cell::new(false);
                    slot_generating(stage);
                    let res = runner.run(&make(), |c: C| {
                        if self.stop.load(Ordering::SeqCst) || (stage_stop.load(Ordering::SeqCst) && !failed.get()) {
                            slot_generating(stage);
                            return Ok(());
                        }
                        slot_enter(stage, kind, &c);
                        let v = guard(|| check(&c));
                        slot_generating(stage);
                        match v {
                            Ok(Verdict::Pass(p)) => {
                                if !failed.get() {
                                    local.borrow_mut().record(stage, &c, &p);
                                }
                                Ok(())
                            }
                            Ok(Verdict::Known(sig)) => {
                                if !failed.get() {
                                    local.borrow_mut().excluded_known += 1;
                                    self.report_known(&sig);
                                }
                                Ok(())
                            }
                            Ok(Verdict::Fail(r)) => {
                                failed.set(true);
                                stage_stop.store(true, Ordering::SeqCst);
                                Err(TestCaseError::fail(r))
                            }
                            Ok(Verdict::EngineBug(r)) => {
                                self.engine_bug(stage, kind, &c.to_json(), &r);
                                Ok(())
                            }
                            Err(p) => {
                                self.engine_bug(stage, kind, &c.to_json(), &format!("harness panic: {}", p));
                                Ok(())
                            }
                        }
                    });
                    slot_leave();
                    self.stats.lock().unwrap().merge(local.into_inner());
                    match res {
                        Ok(()) => {}
                        Err(TestError::Fail(reason, case)) => {
                            failures.lock().unwrap().push((shard, reason.message().to_string(), case.to_json()));
                            // confirm outside proptest
                            match guard(|| check(&case)) {
                                Ok(Verdict::Fail(r2)) => {
                                    let mut f = failures.lock().unwrap();
                                    if let Some(last) = f.last_mut() {
                                        last.1 = r2;
                                    }
                                }
                                other => {
                                    failures.lock().unwrap().pop();
                                    self.inconclusive.lock().unwrap().push(format!(
                                        "stage {}: shrunk failure did not reproduce outside proptest ({:?}) case={}",
                                        stage,
                                        other.map(|v| format!("{:?}", v)),
                                        case.to_json()
                                    ));
                                }
                            }
                        }
                        Err(TestError::Abort(r)) => {
                            self.inconclusive.lock().unwrap().push(format!("stage {}: proptest aborted: {}", stage, r.message()));
                        }
                    }
                });
            }
        });
        let mut f = failures.into_inner().unwrap();
        f.sort_by_key(|x| (x.2.to_string().len(), x.0));
        if let Some((_, reason, case)) = f.into_iter().next() {
            self.report_violation(stage, kind, &case, &reason);
        }
    }

    /// Single ad-hoc case (regression files, known findings)
    pub fn run_single<C: Case>(&self, stage: &'static str, kind: &'static str, case: &C, check: impl Fn(&C) -> Verdict) -> Option<Verdict> {
        slot_enter(stage, kind, case);
        let v = guard(|| check(case));
        slot_leave();
        match v {
            Ok(v) => {
                match &v {
                    Verdict::Pass(p) => self.stats.lock().unwrap().record(stage, case, p),
                    Verdict::Fail(r) => self.report_violation(stage, kind, &case.to_json(), r),
                    Verdict::Known(sig) => {
                        self.stats.lock().unwrap().excluded_known += 1;
                        self.report_known(sig)
                    }
                    Verdict::EngineBug(r) => self.engine_bug(stage, kind, &case.to_json(), r),
                }
                Some(v)
            }
            Err(p) => {
                self.engine_bug(stage, kind, &case.to_json(), &format!("harness panic: {}", p));
                None
            }
        }
    }

    // ---------------------------------------------------------------------------------------
    // finish: evidence + exit code
    // ---------------------------------------------------------------------------------------
    pub fn finish(&self, rule: &str, assumptions: &[&str], extra: Map<String, Value>) -> i32 {
        let stats = std::mem::take(&mut *self.stats.lock().unwrap());
        let violations = self.violations.lock().unwrap();
        let inconclusive = self.inconclusive.lock().unwrap();
        let known = self.known_hits.lock().unwrap();
        let mut samples: Vec<Value> = Vec::new();
        for (cls, v) in &stats.samples {
            for s in v {
                if samples.len() < 40 {
                    samples.push(json!({"class": cls, "case": s}));
                }
            }
        }
        let exhaustive_parts = self.exhaustive_parts.lock().unwrap().clone();
        let mut cov = Map::new();
        cov.insert("evaluations".into(), json!(stats.evaluations));
        cov.insert("distinct_nontrivial".into(), json!(stats.distinct_nontrivial.len()));
        cov.insert("nontrivial_evaluations".into(), json!(stats.nontrivial));
        cov.insert("rule".into(), json!(rule));
        cov.insert("samples".into(), json!(samples));
        cov.insert("classes".into(), json!(stats.classes));
        cov.insert("counters".into(), json!(stats.counters));
        cov.insert("maxima".into(), json!(stats.maxima));
        cov.insert("excluded_known".into(), json!(stats.excluded_known));
        cov.insert("exhaustive_parts".into(), json!(exhaustive_parts));
        cov.insert("exhaustive".into(), json!(false));
        cov.insert("known_findings_reproduced".into(), json!(known.len()));
        cov.insert("notes".into(), json!(self.notes.lock().unwrap().clone()));
        let fz = self.fuzz.lock().unwrap().clone();
        if !fz.is_empty() {
            cov.insert("fuzz".into(), json!(fz));
        }
        cov.insert("inconclusive".into(), json!(inconclusive.clone()));
        cov.insert("profile".into(), json!(self.profile));
        cov.insert("threads".into(), json!(self.threads));
        cov.insert("repo_commit".into(), json!(repo_commit()));
        for (k, v) in extra {
            cov.insert(k, v);
        }
        let ev = json!({
            "property_id": self.property,
            "tier": if self.quick() { "quick" } else { "thorough" },
            "seed": self.seed,
            "level": "exploration",
            "coverage": Value::Object(cov),
            "assumptions": assumptions,
            "wall_s": self.started.elapsed().as_secs_f64(),
            "violations": violations.len(),
        });
        // evidence of the second build profile goes to a side file so that the main one is not overwritten
        let name = if self.profile == "checked" { format!("{}.json", self.property) } else { format!("{}.{}.json", self.property, self.profile) };
        let dir = self.root.join("evidence");
        let _ = std::fs::create_dir_all(&dir);
        std::fs::write(dir.join(name), serde_json::to_string_pretty(&ev).unwrap()).expect("write evidence");

        println!(
            "[{} {} seed={} profile={}] evaluations={} distinct_nontrivial={} excluded_known={} wall={:.1}s",
            self.property,
            if self.quick() { "quick" } else { "thorough" },
            self.seed,
            self.profile,
            stats.evaluations,
            stats.distinct_nontrivial.len(),
            stats.excluded_known,
            self.started.elapsed().as_secs_f64()
        );
        for f in &self.known_open {
            if known.contains_key(&f.signature) {
                println!("KNOWN-FINDING: property={} {}", self.property, f.what);
            }
        }
        for v in violations.iter() {
            println!("  stage {}: {}", v.stage, v.reason);
            println!("VIOLATION property={} replay={}", self.property, v.replay.display());
        }
        if !violations.is_empty() {
            return 1;
        }
        if !inconclusive.is_empty() {
            for i in inconclusive.iter() {
                println!("INCONCLUSIVE property={} {}", self.property, i);
            }
            return 2;
        }
        0
    }
}

pub fn repo_commit() -> String {
    static C: OnceLock<String> = OnceLock::new();
    C.get_or_init(|| {
        let out = std::process::Command::new("git").args(["-C", "/repo", "rev-parse", "--short", "HEAD"]).output();
        let dirty = std::process::Command::new("git").args(["-C", "/repo", "status", "--porcelain", "--untracked-files=no"]).output();
        let mut s = out.ok().map(|o| String::from_utf8_lossy(&o.stdout).trim().to_string()).unwrap_or_default();
        if dirty.map(|d| !d.stdout.is_empty()).unwrap_or(false) {
            s.push_str("+dirty");
        }
        s
    })
    .clone()
}

pub fn hex(b: &[u8]) -> String {
    let mut s = String::with_capacity(b.len() * 2);
    for x in b {
        s.push_str(&format!("{:02x}", x));
    }
    s
}

pub fn unhex(s: &str) -> Option<Vec<u8>> {
    if s.len() % 2 != 0 {
        return None;
    }
    (0..s.len()).step_by(2).map(|i| u8::from_str_radix(&s[i..i + 2], 16).ok()).collect()
}

/// printable rendering of bytes for reasons / samples
pub fn show(b: &[u8]) -> String {
    let mut s = String::new();
    for &c in b.iter().take(80) {
        if (0x20..0x7f).contains(&c) && c != b'\\' {
            s.push(c as char);
        } else {
            s.push_str(&format!("\\x{:02x}", c));
        }
    }
    if b.len() > 80 {
        s.push_str(&format!("...({} bytes)", b.len()));
    }
    s
}
