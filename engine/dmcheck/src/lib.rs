//! dmcheck library: generators, oracles glue, the 19 property functions and the runner.  The
//! `dmcheck` binary (src/main.rs) drives them with proptest; the libFuzzer targets under
//! /verif/fuzz call the same property functions through `targets`.

pub mod cases;
pub mod core;
pub mod fuzzstage;
pub mod gens;
pub mod obs;
pub mod props;
pub mod rsgen;
pub mod shrink;
pub mod targets;
