//! Stage "corpus" (both tiers): the committed libFuzzer corpus of the property's target(s) is
//! replayed through the property's own oracle.
//! Stage "fuzz" (thorough tier): a coverage-guided campaign (cargo-fuzz / libFuzzer, nightly) of
//! the target(s) with only this property's oracle active, on a scratch copy of the corpus.

use crate::core::*;
use crate::props::Prop;
use crate::shrink::{minimise, Shrinkable};
use crate::targets::{self, CorpusCase};
use serde_json::{json, Value};
use std::path::{Path, PathBuf};
use std::process::Command;
use std::sync::Arc;

fn static_prop(id: &str) -> &'static str {
    crate::props::all().into_iter().find(|p| p.id == id).map(|p| p.id).unwrap_or("C00")
}

pub fn corpus_stage(ctx: &Arc<Ctx>, prop: &Prop) {
    let pid = static_prop(prop.id);
    for t in targets::targets_for(prop.id) {
        let mut files = targets::load_corpus(&ctx.root, t);
        if files.is_empty() {
            continue;
        }
        // short inputs first
        files.sort_by_key(|f| f.bytes.len());
        let n = files.len();
        ctx.run_enumerated("corpus-replay", "corpus", files, None, |c: &CorpusCase| targets::check_corpus_case(pid, c, ctx).0);
        ctx.note(format!("replayed {} committed corpus files of fuzz target {}", n, t));
    }
}

/// minimise a failing decoded case where a shrinker exists; returns (kind, case json, reason)
fn minimise_any(ctx: &Ctx, prop: &Prop, kind: &str, case: &Value, reason: &str) -> (Value, String) {
    fn go<C: Shrinkable + Case>(c: Option<C>, reason: &str, kind: &str, ctx: &Ctx, prop: &Prop) -> Option<(Value, String)> {
        let c = c?;
        let (m, why) = minimise(c, reason.to_string(), |x| (prop.replay)(ctx, kind, &x.to_json()).unwrap_or(Verdict::Pass(Pass::new("?", false))), 3000);
        Some((m.to_json(), why))
    }
    let r = match kind {
        "enc" | "enc-explore" => go(crate::cases::EncCase::from_json(case), reason, kind, ctx, prop),
        "stream" => go(crate::cases::BytesCase::from_json(case), reason, kind, ctx, prop),
        "rs" => go(crate::rsgen::RsCase::from_json(case), reason, kind, ctx, prop),
        _ => None,
    };
    r.unwrap_or((case.clone(), reason.to_string()))
}

fn fuzz_dir(root: &Path) -> PathBuf {
    root.join("engine").join("fuzz")
}

fn build_target(root: &Path, target: &str) -> Result<PathBuf, String> {
    let dir = fuzz_dir(root);
    let out = Command::new("cargo")
        .args(["+nightly", "fuzz", "build", "-O", "-s", "none", &format!("fz_{}", target)])
        .current_dir(dir.parent().unwrap())
        .env("CARGO_NET_OFFLINE", "true")
        .output()
        .map_err(|e| format!("cannot run cargo fuzz: {}", e))?;
    if !out.status.success() {
        let err = String::from_utf8_lossy(&out.stderr);
        let tail: String = err.lines().rev().take(12).collect::<Vec<_>>().into_iter().rev().collect::<Vec<_>>().join(" | ");
        return Err(format!("cargo +nightly fuzz build fz_{} failed: {}", target, tail));
    }
    let bin = dir.join("target/x86_64-unknown-linux-gnu/release").join(format!("fz_{}", target));
    if bin.exists() {
        Ok(bin)
    } else {
        Err(format!("fuzz binary {} not found after the build", bin.display()))
    }
}

/// thorough tier: coverage-guided campaign.  `runs` = executions per worker.
pub fn fuzz_stage(ctx: &Arc<Ctx>, prop: &Prop, runs_per_worker: u64) {
    if ctx.stop.load(std::sync::atomic::Ordering::SeqCst) || !ctx.violations.lock().unwrap().is_empty() {
        return;
    }
    let targets = targets::targets_for(prop.id);
    let mut report = Vec::new();
    for t in targets {
        let bin = match build_target(&ctx.root, t) {
            Ok(b) => b,
            Err(e) => {
                // tooling, not subject: the verdict rests on the other stages
                ctx.note(format!("fuzz stage skipped for target {}: {}", t, e));
                report.push(json!({"target": t, "skipped": e}));
                continue;
            }
        };
        // scratch directory outside /verif and /repo
        let scratch = PathBuf::from(format!("/var/tmp/dmfuzz-{}-{}-{}", prop.id, t, std::process::id()));
        let _ = std::fs::remove_dir_all(&scratch);
        let corpus = scratch.join("corpus");
        let out = scratch.join("out");
        let art = scratch.join("artifacts");
        for d in [&corpus, &out, &art] {
            let _ = std::fs::create_dir_all(d);
        }
        for c in targets::load_corpus(&ctx.root, t) {
            let _ = std::fs::write(corpus.join(&c.file), &c.bytes);
        }
        let workers = ctx.threads;
        // the budget is stated for the slow targets (enc, rs, bitmap: 10^2..10^3 executions per second
        // and worker); the byte-level targets are two orders of magnitude faster
        let runs_per_worker = if matches!(*t, "stream" | "script") { runs_per_worker * 20 } else { runs_per_worker };
        let seed = (splitmix(ctx.seed ^ fnv64(t.as_bytes())) % 0x7fff_fffe + 1).to_string();
        let t0 = std::time::Instant::now();
        let status = Command::new(&bin)
            .arg(&corpus)
            .args([
                format!("-runs={}", runs_per_worker),
                format!("-seed={}", seed),
                "-max_len=4096".into(),
                "-len_control=0".into(),
                "-timeout=60".into(),
                "-rss_limit_mb=4096".into(),
                format!("-jobs={}", workers),
                format!("-workers={}", workers),
                "-reload=1".into(),
                "-print_final_stats=1".into(),
                format!("-artifact_prefix={}/", art.display()),
            ])
            .current_dir(&scratch)
            .env("DMFUZZ_PROP", prop.id)
            .env("DMFUZZ_OUT", &out)
            .env("VERIF_ROOT", &ctx.root)
            .stdout(std::process::Stdio::null())
            .stderr(std::process::Stdio::null())
            .status();
        let wall = t0.elapsed().as_secs_f64();
        // collect statistics
        let (mut execs, mut evals, mut nontriv, mut distinct, mut known) = (0u64, 0u64, 0u64, 0u64, 0u64);
        let mut fails: Vec<PathBuf> = Vec::new();
        let mut engine: Vec<PathBuf> = Vec::new();
        if let Ok(rd) = std::fs::read_dir(&out) {
            for e in rd.flatten() {
                let p = e.path();
                let name = p.file_name().unwrap().to_string_lossy().to_string();
                if name.starts_with("stats-") {
                    if let Ok(v) = serde_json::from_str::<Value>(&std::fs::read_to_string(&p).unwrap_or_default()) {
                        execs += v["execs"].as_u64().unwrap_or(0);
                        evals += v["evaluations"].as_u64().unwrap_or(0);
                        nontriv += v["nontrivial"].as_u64().unwrap_or(0);
                        distinct += v["distinct_nontrivial"].as_u64().unwrap_or(0);
                        known += v["known"].as_u64().unwrap_or(0);
                    }
                } else if name.starts_with("fail-") {
                    fails.push(p);
                } else if name.starts_with("engine-") {
                    engine.push(p);
                }
            }
        }
        // coverage figures from the job logs (last "cov:" line of each fuzz-<n>.log)
        let mut cov = 0u64;
        let mut ft = 0u64;
        let mut other_crashes = 0u64;
        if let Ok(rd) = std::fs::read_dir(&scratch) {
            for e in rd.flatten() {
                let p = e.path();
                if p.extension().map_or(false, |x| x == "log") {
                    let txt = std::fs::read_to_string(&p).unwrap_or_default();
                    for l in txt.lines().rev() {
                        if let Some(i) = l.find(" cov: ") {
                            let num = |s: &str| s.split_whitespace().next().and_then(|x| x.parse::<u64>().ok()).unwrap_or(0);
                            cov = cov.max(num(&l[i + 6..]));
                            if let Some(j) = l.find(" ft: ") {
                                ft = ft.max(num(&l[j + 5..]));
                            }
                            break;
                        }
                    }
                    if txt.contains("ERROR: libFuzzer") && !txt.contains("PROPERTY-FAILURE") {
                        other_crashes += 1;
                    }
                }
            }
        }
        let corpus_after = std::fs::read_dir(&corpus).map(|r| r.count()).unwrap_or(0);
        fails.sort();
        let mut confirmed = 0;
        for f in fails.iter().take(5) {
            let Ok(v) = serde_json::from_str::<Value>(&std::fs::read_to_string(f).unwrap_or_default()) else { continue };
            let kind = v["kind"].as_str().unwrap_or("").to_string();
            // confirm in this process (the checked build), then minimise
            match guard(|| (prop.replay)(ctx, &kind, &v["case"])) {
                Ok(Some(Verdict::Fail(r))) => {
                    let (case, why) = minimise_any(ctx, prop, &kind, &v["case"], &r);
                    let path = ctx.write_replay(&format!("fuzz:{}", t), &kind, &case, &why, "fail");
                    eprintln!("[{}] stage fuzz:{}: {}", ctx.property, t, why);
                    ctx.violations.lock().unwrap().push(Violation { stage: format!("fuzz:{}", t), reason: why, replay: path });
                    confirmed += 1;
                    break;
                }
                other => {
                    ctx.inconclusive.lock().unwrap().push(format!("fuzz target {} reported a failure that does not reproduce in the checker ({:?}); file kept at {}", t, other.map(|o| o.map(|v| format!("{:?}", v))), f.display()));
                }
            }
        }
        if !engine.is_empty() {
            ctx.inconclusive.lock().unwrap().push(format!("fuzz target {}: {} oracle self-check failures (first: {})", t, engine.len(), engine[0].display()));
        }
        if other_crashes > 0 && confirmed == 0 && fails.is_empty() {
            // a crash that is not a property failure (timeout, OOM, harness abort): inconclusive
            ctx.inconclusive.lock().unwrap().push(format!("fuzz target {}: {} libFuzzer job(s) ended with an error that is not a property failure (logs in {})", t, other_crashes, scratch.display()));
        }
        {
            let mut st = ctx.stats.lock().unwrap();
            st.evaluations += evals;
            *st.classes.entry(format!("fuzz:{}/evaluations", t)).or_insert(0) += evals;
            *st.counters.entry(format!("fuzz_{}_execs", t)).or_insert(0) += execs;
            *st.counters.entry(format!("fuzz_{}_nontrivial", t)).or_insert(0) += nontriv;
            st.excluded_known += known;
        }
        report.push(json!({
            "target": t, "engine": "libFuzzer via cargo-fuzz (nightly), -jobs/-workers on a shared scratch corpus",
            "workers": workers, "runs_per_worker": runs_per_worker, "libfuzzer_seed": seed,
            "execs": execs, "oracle_evaluations": evals, "nontrivial_evaluations": nontriv,
            "distinct_nontrivial_sum_over_workers": distinct,
            "cov_edges": cov, "features": ft, "corpus_files_before": targets::load_corpus(&ctx.root, t).len(), "corpus_files_after": corpus_after,
            "property_failures": fails.len(), "exit_ok": status.map(|s| s.success()).unwrap_or(false), "wall_s": wall,
        }));
        if confirmed == 0 && fails.is_empty() && engine.is_empty() && other_crashes == 0 {
            let _ = std::fs::remove_dir_all(&scratch);
        } else {
            ctx.note(format!("fuzz scratch directory kept for inspection: {}", scratch.display()));
        }
    }
    ctx.fuzz.lock().unwrap().extend(report);
}
