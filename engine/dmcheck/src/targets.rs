//! Byte-level entry points: a libFuzzer input (or a file of the committed corpus) is decoded into
//! the same case structs the proptest strategies produce and handed to the same property
//! functions, so the semantic oracle sits inside the fuzz target.
//!
//! Five targets:
//!   enc     config header + input bytes      -> C01 C02 C10 C11 C12 C13 C14 C16 C18 C19
//!   stream  data codewords                   -> C05 (decode_data / decode_str)
//!   rs      size + data + error pattern/word -> C03 C05 C09
//!   bitmap  width + pixels / framed symbol   -> C05 C08 C17
//!   script  reference-encoder script         -> C04
//!
//! Decoding is total (every byte string is some case) and deterministic, and a fixed-size header
//! keeps "configuration" and "payload" bytes apart so that mutations of one do not disturb the
//! other.

use crate::cases::*;
use crate::core::*;
use crate::gens::{expand, resolve_fit};
use crate::props::{self, c05::BitmapCase, c14::StrCase};
use crate::rsgen::{codeword_for, RsCase};
use refimpl::table::SYMBOLS;
use serde_json::Value;

pub const TARGETS: [&str; 5] = ["enc", "stream", "rs", "bitmap", "script"];

/// which target serves a property (None: the property is decided by enumeration only)
pub fn targets_for(prop: &str) -> &'static [&'static str] {
    match prop {
        "C01" | "C02" | "C10" | "C11" | "C12" | "C13" | "C14" | "C16" | "C18" | "C19" => &["enc"],
        "C03" | "C06" | "C09" => &["rs"],
        "C07" => &["bitmap"],
        "C15" => &["stream"],
        "C04" => &["script"],
        "C05" => &["stream", "rs", "bitmap"],
        "C08" | "C17" => &["bitmap"],
        _ => &[],
    }
}

struct Cur<'a> {
    b: &'a [u8],
    i: usize,
}

impl<'a> Cur<'a> {
    fn u8(&mut self) -> u8 {
        let v = self.b.get(self.i).copied().unwrap_or(0);
        self.i += 1;
        v
    }
    fn u16(&mut self) -> u16 {
        let a = self.u8() as u16;
        a | (self.u8() as u16) << 8
    }
    fn u64(&mut self) -> u64 {
        let mut v = 0u64;
        for k in 0..8 {
            v |= (self.u8() as u64) << (8 * k);
        }
        v
    }
    fn rest(&mut self) -> &'a [u8] {
        let r = self.b.get(self.i..).unwrap_or(&[]);
        self.i = self.b.len();
        r
    }
}

// ---------------------------------------------------------------------------------------------
// enc
// ---------------------------------------------------------------------------------------------

/// header: [modes, flags, list0..list5, eci0, eci1, eci2] (11 bytes), then the input
pub fn decode_enc(bytes: &[u8]) -> EncCase {
    let mut c = Cur { b: bytes, i: 0 };
    let modes = c.u8() & 63;
    let flags = c.u8();
    let mut mask = 0u64;
    for k in 0..6 {
        mask |= (c.u8() as u64) << (8 * k);
    }
    let e = [c.u8(), c.u8(), c.u8()];
    let mut data = c.rest().to_vec();
    data.truncate(3200);
    let macros = flags & 1 == 1;
    let fnc1 = flags & 2 == 2;
    let eci = match flags >> 5 {
        0..=4 => None,
        5 => Some(e[0] as u32),
        6 => Some(e[0] as u32 | (e[1] as u32) << 8),
        _ => Some((e[0] as u32 | (e[1] as u32) << 8 | (e[2] as u32) << 16) % 1_000_000),
    };
    let list = match (flags >> 2) & 7 {
        0 => default_mask(),
        1 => ALL_MASK,
        2 => 1u64 << (mask % 48),
        3 => mask & ALL_MASK, // may be empty (C11)
        k => resolve_fit(&data, if modes == 0 { 63 } else { modes }, macros, fnc1, k - 4),
    };
    EncCase { data, list, modes, macros, fnc1, eci, stratum: "fuzz" }
}

pub fn encode_enc(c: &EncCase) -> Vec<u8> {
    // inverse of decode_enc for explicit lists (used to seed the corpus)
    let mut flags = (c.macros as u8) | (c.fnc1 as u8) << 1;
    let mut mask = c.list;
    if c.list == default_mask() {
    } else if c.list == ALL_MASK {
        flags |= 1 << 2;
    } else if c.list.count_ones() == 1 {
        flags |= 2 << 2;
        mask = c.list.trailing_zeros() as u64;
    } else {
        flags |= 3 << 2;
    }
    let mut e = [0u8; 3];
    match c.eci {
        None => {}
        Some(v) if v < 256 => {
            flags |= 5 << 5;
            e[0] = v as u8;
        }
        Some(v) if v < 65536 => {
            flags |= 6 << 5;
            e[0] = v as u8;
            e[1] = (v >> 8) as u8;
        }
        Some(v) => {
            flags |= 7 << 5;
            e = [v as u8, (v >> 8) as u8, (v >> 16) as u8];
        }
    }
    let mut out = vec![c.modes, flags];
    out.extend_from_slice(&mask.to_le_bytes()[..6]);
    out.extend_from_slice(&e);
    out.extend_from_slice(&c.data);
    out
}

fn enc_checks(prop: &str, c: &EncCase, ctx: Option<&Ctx>) -> Option<(&'static str, AnyCase, Verdict)> {
    let plain = |c: &EncCase| {
        let mut d = c.clone();
        d.eci = None;
        d
    };
    let bare = |c: &EncCase| {
        let mut d = c.clone();
        d.eci = None;
        d.macros = false;
        d.fnc1 = false;
        d
    };
    let nonempty = |c: EncCase| if c.list == 0 || c.modes == 0 { None } else { Some(c) };
    let (kind, case, v): (&'static str, EncCase, Verdict) = match prop {
        "C01" => {
            let d = nonempty(plain(c))?;
            let v = props::c01::check(&d);
            ("enc", d, v)
        }
        "C02" => {
            let d = nonempty(c.clone())?;
            let v = props::c02::check(&d);
            ("enc", d, v)
        }
        "C10" => {
            let mut d = nonempty(bare(c))?;
            d.data.truncate(120);
            let v = props::c10::check_with(&d, props::c10::Strictness::Explore, ctx?);
            ("enc-explore", d, v)
        }
        "C11" => {
            let v = props::c11::check(c);
            ("enc", c.clone(), v)
        }
        "C12" => {
            let mut d = nonempty(plain(c))?;
            d.fnc1 = false;
            let v = props::c12::check_pick(&d);
            ("enc", d, v)
        }
        "C13" => {
            let mut d = nonempty(plain(c))?;
            d.fnc1 = false;
            let v = props::c13::check(&d);
            ("enc", d, v)
        }
        "C14" => {
            if c.list == 0 || c.modes == 0 {
                return None;
            }
            let s = std::str::from_utf8(&c.data).ok()?.to_string();
            let sc = StrCase { s, cfg: if c.config_is_default() && c.macros { None } else { Some((c.list, c.modes, c.macros, c.fnc1)) }, stratum: "fuzz" };
            let v = props::c14::check(&sc);
            return Some(("str", AnyCase::Str(sc), v));
        }
        "C16" => {
            let d = nonempty(plain(c))?;
            let v = props::c16::check(&d);
            ("enc", d, v)
        }
        "C18" => {
            let d = nonempty(bare(c))?;
            let v = props::c18::check(&d);
            ("enc", d, v)
        }
        "C19" => {
            let d = nonempty(bare(c))?;
            let v = props::c19::check(&d);
            ("enc", d, v)
        }
        _ => return None,
    };
    Some((kind, AnyCase::Enc(case), v))
}

// ---------------------------------------------------------------------------------------------
// stream
// ---------------------------------------------------------------------------------------------

pub fn decode_stream(bytes: &[u8]) -> BytesCase {
    let mut b = bytes.to_vec();
    b.truncate(1600);
    BytesCase { bytes: b, stratum: "fuzz" }
}

// ---------------------------------------------------------------------------------------------
// rs
// ---------------------------------------------------------------------------------------------

/// [size, kind, seed x8] then
///   kind even: error list (pos u16, xor u8)* applied to the codeword of expand(seed) data
///   kind odd : raw received word (missing bytes filled from the codeword)
pub fn decode_rs(bytes: &[u8]) -> RsCase {
    let mut c = Cur { b: bytes, i: 0 };
    let sym = (c.u8() as usize) % 48;
    let kind = c.u8();
    let seed = c.u64();
    let s = &SYMBOLS[sym];
    let data = if seed == 0 { vec![0u8; s.data] } else { expand(seed, s.data) };
    let original = codeword_for(s, &data);
    let mut received = original.clone();
    let rest = c.rest();
    if kind & 1 == 0 {
        for ch in rest.chunks(3) {
            if ch.len() == 3 {
                let pos = (ch[0] as usize | (ch[1] as usize) << 8) % received.len();
                received[pos] ^= ch[2];
            }
        }
    } else {
        for (i, b) in rest.iter().enumerate().take(received.len()) {
            received[i] = *b;
        }
    }
    RsCase { sym, original, received, nearest: None, stratum: "fuzz" }
}

fn rs_checks(prop: &str, c: &RsCase) -> Option<(&'static str, AnyCase, Verdict)> {
    let v = match prop {
        "C03" => {
            let t = c.sym().t();
            if c.block_distances(&c.original).iter().any(|d| *d > t) {
                return None;
            }
            props::c03::check_word(c)
        }
        "C05" => props::c05::check_rs(c),
        "C06" => {
            // the data part of the received word is an arbitrary data vector of the right length
            let d = props::c06::RsData { sym: c.sym, data: c.received[..c.sym().data].to_vec(), stratum: "fuzz" };
            let v = props::c06::check(&d);
            return Some(("rsdata", AnyCase::RsData(d), v));
        }
        "C09" => props::c09::check(c),
        _ => return None,
    };
    Some(("rs", AnyCase::Rs(c.clone()), v))
}

// ---------------------------------------------------------------------------------------------
// bitmap
// ---------------------------------------------------------------------------------------------

/// [kind, a, b] then payload
///   kind%4 == 0: arbitrary array, width a%48, bits from the payload bytes' low bit
///   kind%4 == 1: real dimensions of size a%48, pixels from the payload (missing = light)
///   kind%4 == 2: valid frame of size a%48 rendered around codewords taken from the payload,
///                then the modules listed in the tail flipped
///   kind%4 == 3: as 2 but the codewords are made RS-valid (data part from the payload)
pub fn decode_bitmap(bytes: &[u8]) -> BitmapCase {
    let mut c = Cur { b: bytes, i: 0 };
    let kind = c.u8();
    let a = c.u8() as usize;
    let b = c.u8() as usize;
    let rest = c.rest();
    let sym = &SYMBOLS[a % 48];
    match kind % 4 {
        0 => {
            let w = a % 48;
            let mut n = rest.len().min(48 * 48);
            if w > 0 && b % 4 != 0 {
                n -= n % w; // mostly well-shaped
            }
            BitmapCase { width: w, bits: rest[..n].iter().map(|x| x & 1 == 1).collect(), stratum: "fuzz-arbitrary" }
        }
        1 => {
            let n = sym.rows * sym.cols;
            let bits = (0..n).map(|i| rest.get(i / 8).map_or(false, |x| x >> (i % 8) & 1 == 1)).collect();
            BitmapCase { width: sym.cols, bits, stratum: "fuzz-real-dims" }
        }
        k => {
            let total = sym.total();
            let mut cw: Vec<u8> = (0..total).map(|i| rest.get(i).copied().unwrap_or(129)).collect();
            if k == 3 {
                cw = codeword_for(sym, &cw[..sym.data]);
            }
            let mut bits = refimpl::place::render(sym, &cw);
            // flips: pairs of bytes after the codewords, at most b%8 of them
            let tail = rest.get(total.min(rest.len())..).unwrap_or(&[]);
            for ch in tail.chunks(2).take(b % 8) {
                if ch.len() == 2 {
                    let p = (ch[0] as usize | (ch[1] as usize) << 8) % bits.len();
                    bits[p] = !bits[p];
                }
            }
            BitmapCase { width: sym.cols, bits, stratum: if k == 3 { "fuzz-frame-valid" } else { "fuzz-frame" } }
        }
    }
}

/// the codeword vector behind the framed kinds of the bitmap target (kind % 4 >= 2)
pub fn decode_bitmap_cw(bytes: &[u8]) -> Option<props::c07::CwCase> {
    let kind = *bytes.first()?;
    if kind % 4 < 2 {
        return None;
    }
    let a = *bytes.get(1)? as usize;
    let rest = bytes.get(3..).unwrap_or(&[]);
    let sym = &SYMBOLS[a % 48];
    let total = sym.total();
    let mut cw: Vec<u8> = (0..total).map(|i| rest.get(i).copied().unwrap_or(129)).collect();
    if kind % 4 == 3 {
        cw = codeword_for(sym, &cw[..sym.data]);
    }
    Some(props::c07::CwCase { sym: a % 48, cw, stratum: "fuzz" })
}

fn bitmap_checks(prop: &str, c: &BitmapCase) -> Option<(&'static str, AnyCase, Verdict)> {
    let v = match prop {
        "C05" => props::c05::check_bitmap(c),
        "C08" => props::c08::check_converse(c),
        "C17" => {
            if c.width == 0 || c.bits.is_empty() || c.bits.len() % c.width != 0 || c.bits.len() > 200 * 200 {
                return None;
            }
            let mut d = c.clone();
            d.bits[0] = true;
            let v = props::c17::check(&d);
            return Some(("bitmap", AnyCase::Bitmap(d), v));
        }
        _ => return None,
    };
    Some(("bitmap", AnyCase::Bitmap(c.clone()), v))
}

// ---------------------------------------------------------------------------------------------
// dispatch
// ---------------------------------------------------------------------------------------------

/// the decoded case, rendered as JSON only when needed (failures, corpus replay reports)
#[derive(Debug, Clone)]
pub enum AnyCase {
    Enc(EncCase),
    Str(StrCase),
    Bytes(BytesCase),
    Rs(RsCase),
    RsData(props::c06::RsData),
    Cw(props::c07::CwCase),
    Payload(props::c15::EciPayload),
    Bitmap(BitmapCase),
    Script(props::c04::ScriptCase),
}

impl AnyCase {
    pub fn to_json(&self) -> Value {
        match self {
            AnyCase::Enc(c) => c.to_json(),
            AnyCase::Str(c) => c.to_json(),
            AnyCase::Bytes(c) => c.to_json(),
            AnyCase::Rs(c) => c.to_json(),
            AnyCase::RsData(c) => c.to_json(),
            AnyCase::Cw(c) => c.to_json(),
            AnyCase::Payload(c) => c.to_json(),
            AnyCase::Bitmap(c) => c.to_json(),
            AnyCase::Script(c) => c.to_json(),
        }
    }
}

pub struct Outcome {
    pub prop: &'static str,
    pub kind: &'static str,
    pub case: AnyCase,
    pub verdict: Verdict,
}

const ENC_PROPS: [&str; 10] = ["C01", "C02", "C10", "C11", "C12", "C13", "C14", "C16", "C18", "C19"];
const RS_PROPS: [&str; 4] = ["C03", "C05", "C06", "C09"];
const BITMAP_PROPS: [&str; 3] = ["C05", "C08", "C17"];

/// stream target as ECI payload (C15): [macro selector] then segments [eci selector, flags|len, bytes..]
pub fn decode_payload(bytes: &[u8]) -> props::c15::EciPayload {
    let mut c = Cur { b: bytes, i: 0 };
    let m = c.u8();
    let macro_cw = match m % 8 { 0 => Some(236), 1 => Some(237), _ => None };
    let mut segs = Vec::new();
    while c.i < bytes.len() && segs.len() < 4 {
        let e = c.u8();
        let f = c.u8();
        let len = (f & 15) as usize;
        let eci = if segs.is_empty() && e & 0x80 != 0 { None } else { Some([3u32, 11, 13, 26, 27, 26, 0, 26][(e % 8) as usize]) };
        let payload: Vec<u8> = (0..len).map(|_| c.u8()).collect();
        segs.push((eci, payload, f & 0x10 != 0));
    }
    if segs.is_empty() {
        segs.push((None, Vec::new(), false));
    }
    props::c15::EciPayload { segs, macro_cw }
}

/// Decode `bytes` for `target` and run the oracles of the selected properties (all of the
/// target's properties if `only` is None).  `ctx` is needed by C10 (known findings).
pub fn run_bytes(target: &str, bytes: &[u8], only: Option<&str>, ctx: Option<&Ctx>) -> Vec<Outcome> {
    let mut out = Vec::new();
    let sel = |p: &str| only.map_or(true, |o| o == p);
    match target {
        "enc" => {
            let c = decode_enc(bytes);
            for p in ENC_PROPS {
                if sel(p) {
                    if let Some((kind, case, verdict)) = enc_checks(p, &c, ctx) {
                        out.push(Outcome { prop: p, kind, case, verdict });
                    }
                }
            }
        }
        "stream" => {
            if only == Some("C15") {
                let c = decode_payload(bytes);
                let verdict = props::c15::check_payload(&c);
                out.push(Outcome { prop: "C15", kind: "payload", case: AnyCase::Payload(c), verdict });
            }
            if sel("C05") {
                let c = decode_stream(bytes);
                let verdict = props::c05::check_stream(&c);
                out.push(Outcome { prop: "C05", kind: "stream", case: AnyCase::Bytes(c), verdict });
            }
        }
        "rs" => {
            let c = decode_rs(bytes);
            for p in RS_PROPS {
                if sel(p) {
                    if let Some((kind, case, verdict)) = rs_checks(p, &c) {
                        out.push(Outcome { prop: p, kind, case, verdict });
                    }
                }
            }
        }
        "bitmap" => {
            if only == Some("C07") {
                if let Some(cw) = decode_bitmap_cw(bytes) {
                    let verdict = props::c07::check_values(&cw);
                    out.push(Outcome { prop: "C07", kind: "cw", case: AnyCase::Cw(cw), verdict });
                }
            }
            if sel("C08") {
                if let Some(cw) = decode_bitmap_cw(bytes) {
                    let verdict = props::c08::check_forward(&cw);
                    if !matches!(verdict, Verdict::Pass(_)) {
                        out.push(Outcome { prop: "C08", kind: "cw", case: AnyCase::Cw(cw), verdict });
                        return out;
                    }
                }
            }
            let c = decode_bitmap(bytes);
            for p in BITMAP_PROPS {
                if sel(p) {
                    if let Some((kind, case, verdict)) = bitmap_checks(p, &c) {
                        out.push(Outcome { prop: p, kind, case, verdict });
                    }
                }
            }
        }
        "script" => {
            if sel("C04") {
                let c = props::c04::from_fuzz_bytes(bytes);
                let verdict = props::c04::check(&c);
                out.push(Outcome { prop: "C04", kind: "script", case: AnyCase::Script(c), verdict });
            }
        }
        _ => {}
    }
    out
}

// ---------------------------------------------------------------------------------------------
// in-process state of a fuzz target (libFuzzer calls `fuzz_entry` for every input)
// ---------------------------------------------------------------------------------------------

mod state {
    use super::*;
    use std::collections::{BTreeMap, HashSet};
    use std::sync::{Mutex, OnceLock};

    pub struct St {
        pub only: Option<String>,
        pub out: Option<std::path::PathBuf>,
        pub ctx: Option<Ctx>,
        pub execs: u64,
        pub evaluations: u64,
        pub nontrivial: u64,
        pub distinct: HashSet<u64>,
        pub classes: BTreeMap<String, u64>,
        pub known: u64,
    }

    pub fn get() -> &'static Mutex<St> {
        static S: OnceLock<Mutex<St>> = OnceLock::new();
        S.get_or_init(|| {
            install_panic_hook();
            let only = std::env::var("DMFUZZ_PROP").ok().filter(|s| !s.is_empty());
            let out = std::env::var("DMFUZZ_OUT").ok().map(std::path::PathBuf::from);
            let root = std::path::PathBuf::from(std::env::var("VERIF_ROOT").unwrap_or_else(|_| "/verif".into()));
            let ctx = Some(Ctx::new(only.as_deref().unwrap_or("C10"), Tier::Thorough, 0, root, "fuzz"));
            Mutex::new(St { only, out, ctx, execs: 0, evaluations: 0, nontrivial: 0, distinct: HashSet::new(), classes: BTreeMap::new(), known: 0 })
        })
    }

    pub fn dump(st: &St) {
        let Some(dir) = &st.out else { return };
        let mut top: Vec<(&String, &u64)> = st.classes.iter().collect();
        top.sort_by(|a, b| b.1.cmp(a.1));
        let classes: BTreeMap<&String, &u64> = top.into_iter().take(60).collect();
        let v = serde_json::json!({
            "execs": st.execs, "evaluations": st.evaluations, "nontrivial": st.nontrivial,
            "distinct_nontrivial": st.distinct.len(), "known": st.known, "classes": classes,
        });
        let _ = std::fs::write(dir.join(format!("stats-{}.json", std::process::id())), v.to_string());
    }
}

/// Body of every libFuzzer target.  A property failure writes a replay file into $DMFUZZ_OUT and
/// aborts (libFuzzer then saves the input as crash artifact).
pub fn fuzz_entry(target: &str, bytes: &[u8]) {
    let mut st = state::get().lock().unwrap_or_else(|e| e.into_inner());
    st.execs += 1;
    let only = st.only.clone();
    let outs = run_bytes(target, bytes, only.as_deref(), st.ctx.as_ref());
    for o in outs {
        st.evaluations += 1;
        match o.verdict {
            Verdict::Pass(p) => {
                if p.nontrivial {
                    st.nontrivial += 1;
                    if st.distinct.len() < 4_000_000 {
                        st.distinct.insert(fnv64(bytes) ^ fnv64(o.prop.as_bytes()));
                    }
                }
                if st.classes.len() < 4000 {
                    *st.classes.entry(format!("{}/{}", o.prop, p.class)).or_insert(0) += 1;
                }
            }
            Verdict::Known(_) => st.known += 1,
            Verdict::Fail(reason) => {
                state::dump(&st);
                if let Some(dir) = &st.out {
                    let case = o.case.to_json();
                    let h = fnv64(format!("{}{}", case, reason).as_bytes());
                    let v = serde_json::json!({"property": o.prop, "stage": format!("fuzz:{}", target), "kind": o.kind, "case": case, "observed": reason, "input_hex": hex(bytes)});
                    let _ = std::fs::write(dir.join(format!("fail-{}-{:016x}.json", o.prop, h)), serde_json::to_string_pretty(&v).unwrap());
                }
                eprintln!("PROPERTY-FAILURE {} {}", o.prop, reason);
                std::process::abort();
            }
            Verdict::EngineBug(reason) => {
                if let Some(dir) = &st.out {
                    let case = o.case.to_json();
                    let h = fnv64(format!("{}{}", case, reason).as_bytes());
                    let v = serde_json::json!({"property": o.prop, "stage": format!("fuzz:{}", target), "kind": o.kind, "case": case, "observed": reason, "input_hex": hex(bytes)});
                    let _ = std::fs::write(dir.join(format!("engine-{}-{:016x}.json", o.prop, h)), serde_json::to_string_pretty(&v).unwrap());
                }
            }
        }
    }
    if st.execs % 5000 == 0 {
        state::dump(&st);
    }
}

/// called by the runner at the end of a campaign / by the target's atexit
pub fn fuzz_flush() {
    let st = state::get().lock().unwrap_or_else(|e| e.into_inner());
    state::dump(&st);
}

// ---------------------------------------------------------------------------------------------
// quick tier: replay of the committed corpus through the property's own oracle
// ---------------------------------------------------------------------------------------------

#[derive(Debug, Clone)]
pub struct CorpusCase {
    pub target: &'static str,
    pub file: String,
    pub bytes: Vec<u8>,
}

impl Case for CorpusCase {
    fn to_json(&self) -> Value {
        serde_json::json!({"target": self.target, "file": self.file, "input_hex": hex(&self.bytes)})
    }
    fn fingerprint(&self) -> u64 {
        fnv64(&self.bytes)
    }
}

pub fn load_corpus(root: &std::path::Path, target: &'static str) -> Vec<CorpusCase> {
    let dir = root.join("corpus").join(target);
    let Ok(rd) = std::fs::read_dir(&dir) else { return Vec::new() };
    let mut files: Vec<_> = rd.flatten().map(|e| e.path()).filter(|p| p.is_file()).collect();
    files.sort();
    files.into_iter().filter_map(|p| Some(CorpusCase { target, file: p.file_name()?.to_string_lossy().into_owned(), bytes: std::fs::read(&p).ok()? })).collect()
}

/// One corpus file through one property: the verdict of the decoded case (Pass with class
/// "no-case" if the bytes decode to something outside the property's domain).
pub fn check_corpus_case(prop: &'static str, c: &CorpusCase, ctx: &Ctx) -> (Verdict, Option<(&'static str, Value)>) {
    let outs = run_bytes(c.target, &c.bytes, Some(prop), Some(ctx));
    match outs.into_iter().next() {
        None => (Verdict::Pass(Pass::new("outside-domain", false)), None),
        Some(o) => (o.verdict, Some((o.kind, o.case.to_json()))),
    }
}

// ---------------------------------------------------------------------------------------------
// seed corpus (developer mode `dmcheck CORPUS --gen <dir>`): small valid inputs per target,
// drawn from the same strategies as the proptest stages with a fixed seed
// ---------------------------------------------------------------------------------------------

pub fn generate_seed_corpus(dir: &std::path::Path) -> std::io::Result<()> {
    use proptest::strategy::{Strategy, ValueTree};
    use proptest::test_runner::{Config, RngSeed, TestRunner};
    let mut cfg = Config::default();
    cfg.rng_seed = RngSeed::Fixed(0x5eed);
    cfg.failure_persistence = None;
    let mut runner = TestRunner::new(cfg);
    let write = |t: &str, i: usize, tag: &str, b: &[u8]| -> std::io::Result<()> {
        let d = dir.join(t);
        std::fs::create_dir_all(&d)?;
        std::fs::write(d.join(format!("seed-{}-{:04}", tag, i)), b)
    };
    // enc + stream
    let o = crate::gens::EncGenOpts { eci: true, long_weight: 1, macro_weight: 3, ..Default::default() };
    let strat = crate::gens::g_enc_case(o);
    for i in 0..400 {
        let mut c = strat.new_tree(&mut runner).unwrap().current();
        if c.data.len() > 600 {
            c.data.truncate(600);
        }
        write("enc", i, "gen", &encode_enc(&c))?;
        if let Ok(Ok(dm)) = guard(|| c.encode()) {
            let mut cw = dm.data_codewords().to_vec();
            write("stream", i, "crate", &cw)?;
            if i % 3 == 0 && !cw.is_empty() {
                let k = (i * 7) % cw.len();
                cw[k] = cw[k].wrapping_add(1 + (i % 250) as u8);
                write("stream", i, "crate-mut", &cw)?;
            }
        }
    }
    for (i, s) in [&b"Hello, World!"[..], b"", b"A", b"123456", b"AIMAIMAIM", b"[)>\x1e05\x1d01\x1e\x04", b"ABCDEFGH12345678", b"\xab\xe4\xf6\xfc\xe9\xbb", b"*>\r ABC123"].iter().enumerate() {
        for (j, modes) in [63u8, 62, 1, 2, 4, 8, 16, 32].iter().enumerate() {
            let c = EncCase { data: s.to_vec(), list: default_mask(), modes: *modes, macros: true, fnc1: false, eci: None, stratum: "seed" };
            write("enc", i * 8 + j, "fixed", &encode_enc(&c))?;
        }
    }
    // rs: clean codewords and a few error patterns for every size
    for sym in 0..48usize {
        let total = SYMBOLS[sym].total();
        let mut b = vec![sym as u8, 0];
        b.extend_from_slice(&(0x1234_5678_9abc_def0u64 ^ sym as u64).to_le_bytes());
        write("rs", sym, "clean", &b)?;
        let mut e = b.clone();
        for k in 0..3usize {
            let pos = (total - 1 - k * 7 % total) as u16;
            e.extend_from_slice(&[pos as u8, (pos >> 8) as u8, 0x5a + k as u8]);
        }
        write("rs", sym, "err3", &e)?;
        let mut r = vec![sym as u8, 1];
        r.extend_from_slice(&0u64.to_le_bytes());
        r.extend_from_slice(&expand(sym as u64 + 1, total.min(200)));
        write("rs", sym, "raw", &r)?;
    }
    // bitmap: framed symbols of every size, small arbitrary arrays
    for sym in 0..48usize {
        let mut b = vec![3u8, sym as u8, 0];
        b.extend_from_slice(b"Hello");
        write("bitmap", sym, "frame-valid", &b)?;
        let mut f = vec![2u8, sym as u8, 2];
        f.extend_from_slice(&expand(sym as u64 + 99, SYMBOLS[sym].total() + 4));
        write("bitmap", sym, "frame", &f)?;
    }
    for i in 0..24usize {
        let mut b = vec![0u8, (2 + i % 12) as u8, 1];
        b.extend_from_slice(&expand(i as u64 + 7, (2 + i % 12) * (2 + i % 7)));
        write("bitmap", i, "arbitrary", &b)?;
    }
    // script: raw bytes
    for i in 0..150usize {
        write("script", i, "raw", &expand(i as u64 * 31 + 5, 8 + 28 * 6))?;
    }
    Ok(())
}
