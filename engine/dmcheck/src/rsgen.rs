//! Received-word generators for the Reed-Solomon properties (C03, C09, C05).

use crate::core::{hex, unhex, Case};
use crate::gens::{g_blob, g_blob16, pick};
use proptest::collection::vec;
use proptest::prelude::*;
use refimpl::gf;
use refimpl::table::{Sym, SYMBOLS};
use serde_json::{json, Value};

/// A received word together with the valid codeword vector it was derived from.
#[derive(Debug, Clone)]
pub struct RsCase {
    pub sym: usize,
    /// a valid codeword vector (data + error codewords) of the symbol
    pub original: Vec<u8>,
    /// what the decoder is given
    pub received: Vec<u8>,
    /// for constructed near-miss words: the (other) codeword vector at distance <= t in every block
    pub nearest: Option<Vec<u8>>,
    pub stratum: &'static str,
}

impl Case for RsCase {
    fn to_json(&self) -> Value {
        json!({
            "size": SYMBOLS[self.sym].name,
            "original": hex(&self.original),
            "received": hex(&self.received),
            "nearest": self.nearest.as_ref().map(|n| hex(n)),
            "errors": self.error_summary(),
        })
    }
    fn fingerprint(&self) -> u64 {
        crate::core::fnv64(&self.received) ^ crate::core::splitmix(self.sym as u64)
    }
}

impl RsCase {
    pub fn from_json(v: &Value) -> Option<Self> {
        Some(RsCase {
            sym: refimpl::table::index_of(v["size"].as_str()?)?,
            original: unhex(v["original"].as_str()?)?,
            received: unhex(v["received"].as_str()?)?,
            nearest: match v["nearest"].as_str() {
                Some(s) => Some(unhex(s)?),
                None => None,
            },
            stratum: "replay",
        })
    }

    pub fn sym(&self) -> &'static Sym {
        &SYMBOLS[self.sym]
    }

    /// number of differing codewords per block between `received` and `reference`
    pub fn block_distances(&self, reference: &[u8]) -> Vec<usize> {
        let s = self.sym();
        (0..s.blocks).map(|b| gf::block_indices(s, b).iter().filter(|i| self.received[**i] != reference[**i]).count()).collect()
    }

    /// readable list of the injected errors: (position, block, region, xor)
    pub fn error_summary(&self) -> Value {
        let s = self.sym();
        let mut v = Vec::new();
        for i in 0..self.received.len() {
            if self.received[i] != self.original[i] {
                let (block, region) = if i < s.data { (i % s.blocks, "data") } else { ((i - s.data) % s.blocks, "ec") };
                v.push(json!({"pos": i, "block": block, "region": region, "xor": self.received[i] ^ self.original[i]}));
                if v.len() >= 80 {
                    break;
                }
            }
        }
        json!(v)
    }

    /// is some error located in the EC region of a block >= 1 ?
    pub fn hits_ec_of_later_block(&self) -> bool {
        let s = self.sym();
        (s.data..s.total()).any(|i| self.received[i] != self.original[i] && (i - s.data) % s.blocks >= 1)
    }
}

pub fn codeword_for(sym: &Sym, data: &[u8]) -> Vec<u8> {
    let mut w = data.to_vec();
    w.extend(gf::ref_encode(sym, data));
    w
}

/// symbol choice: weights favour multi-block sizes, the seven odd-k sizes and small sizes
pub fn pick_sym(r: u16) -> usize {
    const MULTI: [usize; 10] = [14, 15, 16, 17, 18, 19, 20, 21, 22, 23];
    // odd k: Square10(5) Square12(7) Rect8x18(7) Rect8x32(11) Rect8x48(15) Rect12x64(27) Rect24x48(41)
    const ODD: [usize; 7] = [0, 1, 24, 25, 30, 36, 43];
    let k = pick(r, 100);
    let sub = (r as usize * 7919) >> 4;
    if k < 35 {
        MULTI[sub % 10]
    } else if k < 65 {
        ODD[sub % 7]
    } else if k < 80 {
        sub % 9 // small squares
    } else {
        sub % 48
    }
}

fn data_vector(sym: &Sym, kind: u16, bytes: &[u8]) -> Vec<u8> {
    match pick(kind, 8) {
        0 => vec![0; sym.data],
        1 => vec![255; sym.data],
        2 => {
            let mut d = vec![0; sym.data];
            d[bytes[0] as usize % sym.data] = bytes[1] | 1;
            d
        }
        _ => bytes[..sym.data].to_vec(),
    }
}

/// choose `w` distinct positions inside block `b` (as indices into the full vector) following
/// a region preference: 0 data, 1 ec, 2 mixed, 3 includes the last EC codeword of the block
fn choose_positions(sym: &Sym, b: usize, w: usize, region: usize, raws: &mut impl Iterator<Item = u16>) -> Vec<usize> {
    let idx = gf::block_indices(sym, b);
    let nd = sym.block_data_len(b);
    let mut pool: Vec<usize> = match region {
        0 => idx[..nd].to_vec(),
        1 => idx[nd..].to_vec(),
        _ => idx.clone(),
    };
    let mut out = Vec::new();
    if region == 3 && w > 0 {
        let last = *idx.last().unwrap();
        out.push(last);
        pool.retain(|p| *p != last);
    }
    while out.len() < w {
        if pool.is_empty() {
            // region exhausted: fall back to the whole block
            pool = idx.iter().copied().filter(|p| !out.contains(p)).collect();
            if pool.is_empty() {
                break;
            }
        }
        let r = raws.next().unwrap_or(0);
        let i = pick(r, pool.len());
        out.push(pool.swap_remove(i));
    }
    out
}

fn nonzero(r: u16) -> u8 {
    let v = (r >> 3) as u8;
    if v == 0 {
        (r as u8) | 1
    } else {
        v
    }
}

#[derive(Debug, Clone, Copy, PartialEq, Eq)]
pub enum Radius {
    /// weights in {0, 1, t-1, t} per block
    Within,
    /// at least one block with weight in t+1 ..= k (or the whole block)
    Beyond,
}

/// codeword + per-block error pattern
pub fn g_error_pattern(radius: Radius) -> BoxedStrategy<RsCase> {
    (any::<u16>(), any::<u16>(), g_blob(1558), vec(any::<u16>(), 10), vec(any::<u16>(), 10), g_blob16(700))
        .prop_map(move |(s, dk, bytes, weights, regions, raws)| {
            let symi = pick_sym(s);
            let sym = &SYMBOLS[symi];
            let data = data_vector(sym, dk, &bytes);
            let original = codeword_for(sym, &data);
            let mut received = original.clone();
            let (k, t) = (sym.ec_per_block(), sym.t());
            let mut it = raws.into_iter();
            let mut any_beyond = false;
            for b in 0..sym.blocks {
                let n = gf::block_indices(sym, b).len();
                let w = match radius {
                    Radius::Within => [t, 1, t.saturating_sub(1), 0, t, t][pick(weights[b], 6)].min(t),
                    Radius::Beyond => {
                        let choice = pick(weights[b], 8);
                        if b > 0 && any_beyond && choice < 3 {
                            // other blocks may stay clean / within radius
                            [0, 1, t][choice]
                        } else {
                            any_beyond = true;
                            match choice {
                                0 | 3 => t + 1,
                                1 | 4 => t + 2,
                                2 | 5 => k.min(n),
                                6 => (t + 1 + pick(weights[b].rotate_left(5), k - t)).min(n),
                                _ => n,
                            }
                        }
                    }
                };
                let region = pick(regions[b], 4);
                for p in choose_positions(sym, b, w, region, &mut it) {
                    received[p] ^= nonzero(it.next().unwrap_or(1));
                }
            }
            RsCase { sym: symi, original, received, nearest: None, stratum: if radius == Radius::Within { "within-radius" } else { "beyond-radius" } }
        })
        .boxed()
}

/// Error patterns whose *values* are solved for so that the syndromes satisfy linear relations a
/// random pattern meets with probability 255^-m: the first m syndromes vanish, or the first
/// syndromes follow the recurrence of fewer (v < w) errors for m steps (geometric progression for
/// v = 1).  Such patterns drive the error-locator recursion through its singular branches (zero
/// discrepancies, jumps over several orders, a start at a higher order).  Syndromes are linear in
/// the error values, so m values are obtained from an m x m system, the other w - m are free.
/// `Within`: w <= t errors in the block (must be corrected); `Beyond`: t < w <= k.
pub fn g_constrained_values(radius: Radius) -> BoxedStrategy<RsCase> {
    (any::<u16>(), any::<u16>(), g_blob(1558), any::<u16>(), any::<u16>(), any::<u16>(), any::<u16>(), g_blob16(200), any::<u16>())
        .prop_map(move |(s, dk, bytes, bsel, wsel, fam, msel, raws, region)| {
            let symi = pick_sym(s);
            let sym = &SYMBOLS[symi];
            let data = data_vector(sym, dk, &bytes);
            let original = codeword_for(sym, &data);
            let mut received = original.clone();
            let (k, t) = (sym.ec_per_block(), sym.t());
            let b = pick(bsel, sym.blocks);
            let idx = gf::block_indices(sym, b);
            let n = idx.len();
            let w = match radius {
                Radius::Within => [t, t, t.saturating_sub(1).max(1), 3.min(t), (t + 1) / 2 + 1][pick(wsel, 5)].min(t).max(1),
                Radius::Beyond => (t + 1 + pick(wsel, (k - t).min(4))).min(n),
            };
            let mut it = raws.into_iter();
            let pos = choose_positions(sym, b, w, pick(region, 4), &mut it);
            let w = pos.len();
            // locator of position p (index into the full vector) inside its block
            let loc = |p: usize| {
                let j = idx.iter().position(|q| *q == p).unwrap();
                gf::pow(2, n - 1 - j)
            };
            let xs: Vec<u8> = pos.iter().map(|p| loc(*p)).collect();
            // number of constraints, stratified: 1, 2, about w/2, w - 1
            let m = if w <= 1 { 0 } else { [1usize, 2, w / 2, w - 1, w - 1, 3][pick(msel, 6)].min(w - 1).max(1) };
            // constraint j (1-based) on the error values e: sum_i e_i * coef(i, j) = 0
            let family = pick(fam, 4);
            let v = match family { 0 => 0, 1 => 1, 2 => 2.min(w.saturating_sub(1)), _ => (w / 2).max(1).min(w.saturating_sub(1)) };
            // C(x) = prod over v pseudo locators (x - y): recurrence polynomial of "v errors"; v = 0: C = 1 (plain zeros)
            let ys: Vec<u8> = (0..v).map(|_| gf::pow(2, pick(it.next().unwrap_or(1), 255))).collect();
            let cval = |x: u8| ys.iter().fold(1u8, |acc, y| gf::mul(acc, x ^ *y));
            let coef = |i: usize, j: usize| gf::mul(gf::pow(xs[i], j), cval(xs[i]));
            // free values for the last w - m positions
            let mut e = vec![0u8; w];
            for i in m..w {
                e[i] = nonzero(it.next().unwrap_or(1));
            }
            if m > 0 {
                let a: Vec<Vec<u8>> = (1..=m).map(|j| (0..m).map(|i| coef(i, j)).collect()).collect();
                let rhs: Vec<u8> = (1..=m).map(|j| (m..w).fold(0u8, |acc, i| acc ^ gf::mul(e[i], coef(i, j)))).collect();
                if let Some(sol) = gf::solve(&a, &rhs) {
                    e[..m].copy_from_slice(&sol[..m]);
                } else {
                    for x in e.iter_mut().take(m) {
                        *x = nonzero(it.next().unwrap_or(1));
                    }
                }
            }
            for (p, x) in pos.iter().zip(e.iter()) {
                received[*p] ^= *x;
            }
            RsCase { sym: symi, original, received, nearest: None, stratum: if radius == Radius::Within { "constrained-values-within" } else { "constrained-values-beyond" } }
        })
        .boxed()
}

/// uniformly random received words (original = all-zero codeword)
pub fn g_random_word() -> BoxedStrategy<RsCase> {
    (any::<u16>(), g_blob(2178))
        .prop_map(|(s, bytes)| {
            let symi = pick_sym(s);
            let sym = &SYMBOLS[symi];
            RsCase { sym: symi, original: vec![0; sym.total()], received: bytes[..sym.total()].to_vec(), nearest: None, stratum: "random-word" }
        })
        .boxed()
}

/// constructed near miss: c + (w restricted to k+1-t of its k+1 positions), w a minimum weight
/// codeword of one block.  Farther than t from c, exactly t from c + w.
pub fn g_near_miss() -> BoxedStrategy<RsCase> {
    (any::<u16>(), any::<u16>(), g_blob(1558), any::<u16>(), g_blob16(200), any::<u16>())
        .prop_map(|(s, dk, bytes, bsel, raws, fv)| {
            let symi = pick_sym(s);
            let sym = &SYMBOLS[symi];
            let data = data_vector(sym, dk, &bytes);
            let original = codeword_for(sym, &data);
            let (k, t) = (sym.ec_per_block(), sym.t());
            let b = pick(bsel, sym.blocks);
            let idx = gf::block_indices(sym, b);
            let n = idx.len();
            // k+1 distinct block-local positions
            let mut pool: Vec<usize> = (0..n).collect();
            let mut it = raws.into_iter();
            let mut pos = Vec::new();
            while pos.len() < k + 1 {
                let i = pick(it.next().unwrap_or(0), pool.len());
                pos.push(pool.swap_remove(i));
            }
            let vals = gf::min_weight_codeword(n, k, &pos, nonzero(fv));
            let mut nearest = original.clone();
            for (p, v) in pos.iter().zip(vals.iter()) {
                nearest[idx[*p]] ^= *v;
            }
            // keep k+1-t positions of w (drop t of them): received = c + w|S
            let mut received = nearest.clone();
            for p in pos.iter().take(t) {
                received[idx[*p]] = original[idx[*p]];
            }
            RsCase { sym: symi, original, received, nearest: Some(nearest), stratum: "near-miss" }
        })
        .boxed()
}

/// words whose first j syndromes (1 <= j <= k) vanish in one block although the word is not a
/// codeword: random error pattern, then j extra positions are solved for.
pub fn g_zero_syndrome_prefix() -> BoxedStrategy<RsCase> {
    (any::<u16>(), g_blob(1558), any::<u16>(), any::<u16>(), g_blob16(300), any::<u16>())
        .prop_map(|(s, bytes, bsel, jsel, raws, wsel)| {
            let symi = pick_sym(s);
            let sym = &SYMBOLS[symi];
            let data = bytes[..sym.data].to_vec();
            let original = codeword_for(sym, &data);
            let (k, t) = (sym.ec_per_block(), sym.t());
            let b = pick(bsel, sym.blocks);
            let idx = gf::block_indices(sym, b);
            let n = idx.len();
            // j: number of leading zero syndromes, stratified around t
            let j = match pick(jsel, 6) {
                0 => 1,
                1 => t.max(1),
                2 => (t + 1).min(k - 1).max(1),
                3 => (k - 1).max(1),
                4 => (t.saturating_sub(1)).max(1),
                _ => 1 + pick(jsel.rotate_left(7), k - 1),
            };
            let mut it = raws.into_iter();
            let mut received = original.clone();
            // base error of weight 1..=3 at free positions
            let mut pool: Vec<usize> = (0..n).collect();
            let base_w = 1 + pick(wsel, 3);
            for _ in 0..base_w.min(n.saturating_sub(j)) {
                let i = pick(it.next().unwrap_or(0), pool.len());
                let p = pool.swap_remove(i);
                received[idx[p]] ^= nonzero(it.next().unwrap_or(1));
            }
            // j solve positions
            let mut solve_pos = Vec::new();
            while solve_pos.len() < j && !pool.is_empty() {
                let i = pick(it.next().unwrap_or(0), pool.len());
                solve_pos.push(pool.swap_remove(i));
            }
            let syn = gf::block_syndromes(sym, &received, b);
            let loc = |p: usize| gf::pow(2, n - 1 - p);
            let a: Vec<Vec<u8>> = (1..=solve_pos.len()).map(|m| solve_pos.iter().map(|p| gf::pow(loc(*p), m)).collect()).collect();
            let rhs: Vec<u8> = syn[..solve_pos.len()].to_vec();
            if let Some(delta) = gf::solve(&a, &rhs) {
                for (p, d) in solve_pos.iter().zip(delta.iter()) {
                    received[idx[*p]] ^= *d;
                }
            }
            RsCase { sym: symi, original, received, nearest: None, stratum: "zero-syndrome-prefix" }
        })
        .boxed()
}

/// all single-codeword errors of one symbol (enumerated stage): positions x values
pub fn single_errors(symi: usize, values: &[u8], step: usize) -> Vec<RsCase> {
    let sym = &SYMBOLS[symi];
    let data: Vec<u8> = (0..sym.data).map(|i| (i as u32 * 151 + 7) as u8).collect();
    let original = codeword_for(sym, &data);
    let mut out = Vec::new();
    for p in (0..sym.total()).step_by(step) {
        for v in values {
            let mut received = original.clone();
            received[p] ^= *v;
            out.push(RsCase { sym: symi, original: original.clone(), received, nearest: None, stratum: "single-error" });
        }
    }
    out
}

/// Words with a *prescribed* syndrome vector in one block: k positions of a codeword are
/// modified by solving the k x k Vandermonde system, so that measure-small regions of the
/// syndrome space (isolated non-zero syndromes, zero runs, consistent sequences with one
/// perturbed entry) are hit by construction.
pub fn g_syndrome_pattern() -> BoxedStrategy<RsCase> {
    (any::<u16>(), g_blob(1558), any::<u16>(), any::<u16>(), g_blob16(200), g_blob(80), any::<u16>())
        .prop_map(|(s, bytes, bsel, psel, raws, vals, jsel)| {
            let symi = pick_sym(s);
            let sym = &SYMBOLS[symi];
            let data = bytes[..sym.data].to_vec();
            let original = codeword_for(sym, &data);
            let k = sym.ec_per_block();
            let t = sym.t();
            let b = pick(bsel, sym.blocks);
            let idx = gf::block_indices(sym, b);
            let n = idx.len();
            let nz = |i: usize| if vals[i % 80] == 0 { 1 } else { vals[i % 80] };
            let j = pick(jsel, k); // 0-based syndrome index
            let mut target = vec![0u8; k];
            let pattern = pick(psel, 14);
            match pattern {
                12 | 13 => {
                    // syndromes of v <= t errors of which at least one sits at a *virtual* location of the
                    // shortened code (locator 2^j with j >= n, first of all j = n): a decoder must notice
                    // that the location lies outside the block instead of indexing with it
                    let v = if pattern == 12 { 1 } else { 1 + pick(raws[197], t.max(1)) };
                    for e in 0..v {
                        let j = if e == 0 {
                            [n, n, n + 1, 254, n + pick(raws[196], 255 - n)][pick(raws[195], 5)].min(254)
                        } else if e == 1 && raws[194] & 1 == 1 {
                            // together with the location alpha^0 (last codeword of the block): the zeros
                            // of the locator are then not found in ascending order of the location
                            0
                        } else {
                            pick(raws[(e + 20) % 200], 255)
                        };
                        let x = gf::pow(2, j);
                        let val = nz(e + 3);
                        for (m, tm) in target.iter_mut().enumerate() {
                            *tm ^= gf::mul(val, gf::pow(x, m + 1));
                        }
                    }
                }
                9 | 10 | 11 => {
                    // LFSR sequence with ONE innovation: the syndromes follow the recurrence of v genuine
                    // error locators everywhere except that relation r is broken once (S_r gets an extra
                    // delta and the sequence continues from the new state).  Exactly one recurrence
                    // relation fails - the shape a decoder sees when a check of one relation is missing.
                    let v = match pattern { 9 => 1, 10 => 2.min(t.max(1)), _ => [1usize, 2, 3, t.saturating_sub(2).max(1), t.saturating_sub(1).max(1)][pick(raws[199], 5)] }.min(k.saturating_sub(1)).max(1);
                    // locator polynomial 1 + c1 x + ... + cv x^v with roots at the chosen error locators
                    let mut c = vec![1u8];
                    let mut xs = Vec::new();
                    for e in 0..v {
                        let x = gf::pow(2, pick(raws[(e + 7) % 200], n));
                        xs.push(x);
                        let mut nc = vec![0u8; c.len() + 1];
                        for (i, ci) in c.iter().enumerate() {
                            nc[i] ^= *ci;
                            nc[i + 1] ^= gf::mul(*ci, x);
                        }
                        c = nc;
                    }
                    // genuine start: syndromes of the v errors
                    for (e, x) in xs.iter().enumerate() {
                        let val = nz(e);
                        for (m, tm) in target.iter_mut().enumerate().take(v) {
                            *tm ^= gf::mul(val, gf::pow(*x, m + 1));
                        }
                    }
                    // innovation index, stratified around t-1, t, 2t-1, k-1
                    let r = [t.saturating_sub(1), t, (2 * t).saturating_sub(1), k - 1, t + 1, j][pick(raws[198], 6)].max(v).min(k - 1);
                    for m in v..k {
                        let mut sm = 0u8;
                        for i in 1..=v {
                            sm ^= gf::mul(c[i], target[m - i]);
                        }
                        if m == r {
                            sm ^= nz(11);
                        }
                        target[m] = sm;
                    }
                }
                0 => target[0] = nz(0),
                1 => target[j] = nz(1),
                2 => {
                    for (i, x) in target.iter_mut().enumerate() {
                        if vals[i % 80] & 1 == 1 {
                            *x = nz(i + 1);
                        }
                    }
                }
                3 => {
                    for i in j..k {
                        target[i] = nz(i);
                    }
                }
                4 => {
                    for i in 0..=j {
                        target[i] = nz(i);
                    }
                }
                5 | 6 | 7 => {
                    // syndromes of 1, 2 or t genuine errors, then one entry zeroed / perturbed
                    let ne = match pattern { 5 => 1, 6 => 2, _ => t.max(1) };
                    for e in 0..ne {
                        let x = gf::pow(2, pick(raws[e % 200], n));
                        let v = nz(e);
                        for (m, tm) in target.iter_mut().enumerate() {
                            *tm ^= gf::mul(v, gf::pow(x, m + 1));
                        }
                    }
                    if vals[7] & 1 == 1 { target[j] = 0 } else { target[j] ^= nz(9) }
                }
                _ => {
                    // S_1 != 0, S_2 = 0, rest random-ish zero runs
                    target[0] = nz(0);
                    for i in 2..k {
                        if vals[i % 80] & 3 == 0 {
                            target[i] = nz(i);
                        }
                    }
                }
            }
            // k distinct block-local positions
            let mut pool: Vec<usize> = (0..n).collect();
            let mut it = raws.into_iter();
            let mut pos = Vec::new();
            while pos.len() < k {
                let i = pick(it.next().unwrap_or(0), pool.len());
                pos.push(pool.swap_remove(i));
            }
            let loc = |p: usize| gf::pow(2, n - 1 - p);
            let a: Vec<Vec<u8>> = (1..=k).map(|m| pos.iter().map(|p| gf::pow(loc(*p), m)).collect()).collect();
            let mut received = original.clone();
            if let Some(delta) = gf::solve(&a, &target) {
                for (p, d) in pos.iter().zip(delta.iter()) {
                    received[idx[*p]] ^= *d;
                }
            }
            // one time in three the blocks before `b` carry one correctable error each (last codeword
            // of the block = location alpha^0, first codeword, or anywhere): whatever a decoder keeps
            // from one block to the next is then not in its initial state when block `b` is reached
            if b > 0 && vals[79] % 3 == 0 {
                for b2 in 0..b {
                    if b2 > 0 && vals[(70 + b2) % 80] & 1 == 1 {
                        continue;
                    }
                    let idx2 = gf::block_indices(sym, b2);
                    let p = match vals[(60 + b2) % 80] % 3 {
                        0 => *idx2.last().unwrap(),
                        1 => idx2[0],
                        _ => idx2[pick(jsel.rotate_left(b2 as u32 + 3), idx2.len())],
                    };
                    received[p] ^= nz(40 + b2);
                }
            }
            RsCase { sym: symi, original, received, nearest: None, stratum: "syndrome-pattern" }
        })
        .boxed()
}
