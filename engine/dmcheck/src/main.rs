//! dmcheck — decides the properties C01..C19 of datamatrix-rs by generated-input search against
//! independent oracles.  Usage:
//!
//!   dmcheck <ID> [--tier quick|thorough] [--seed N] [--root DIR] [--profile NAME]
//!   dmcheck <ID> --replay FILE
//!
//! exit 0: property held on everything explored; exit 1: `VIOLATION property=<ID> replay=<path>`;
//! exit 2: inconclusive (watchdog, tooling, oracle self-check).

use dmcheck::core::{self, Ctx, Tier};
use dmcheck::props;
use std::path::PathBuf;
use std::sync::Arc;

fn main() {
    let args: Vec<String> = std::env::args().collect();
    if args.len() < 2 {
        eprintln!("usage: dmcheck <ID> [--tier quick|thorough] [--seed N] [--replay FILE] [--root DIR] [--profile NAME]");
        std::process::exit(2);
    }
    let id = args[1].clone();
    if id == "CORPUS" {
        // developer mode: write the seed corpus for the fuzz targets
        if args.len() == 4 && args[2] == "--gen" {
            core::install_panic_hook();
            dmcheck::targets::generate_seed_corpus(std::path::Path::new(&args[3])).expect("write seed corpus");
            return;
        }
        eprintln!("usage: dmcheck CORPUS --gen <dir>");
        std::process::exit(2);
    }
    let mut tier = match std::env::var("VERIF_TIER").ok().as_deref() {
        Some("thorough") => Tier::Thorough,
        _ => Tier::Quick,
    };
    let mut seed: u64 = std::env::var("VERIF_SEED").ok().and_then(|s| s.trim().parse::<i128>().ok()).map(|v| v as u64).unwrap_or(0);
    let mut replay: Option<PathBuf> = None;
    let mut isolated: Option<PathBuf> = None;
    let mut root = PathBuf::from(std::env::var("VERIF_ROOT").unwrap_or_else(|_| "/verif".into()));
    let mut profile = String::from("checked");
    let mut i = 2;
    while i < args.len() {
        match args[i].as_str() {
            "--tier" => {
                i += 1;
                tier = if args[i] == "thorough" { Tier::Thorough } else { Tier::Quick };
            }
            "--seed" => {
                i += 1;
                seed = args[i].parse::<i128>().expect("seed") as u64;
            }
            "--replay" => {
                i += 1;
                replay = Some(PathBuf::from(&args[i]));
            }
            "--isolated" => {
                i += 1;
                isolated = Some(PathBuf::from(&args[i]));
            }
            "--root" => {
                i += 1;
                root = PathBuf::from(&args[i]);
            }
            "--profile" => {
                i += 1;
                profile = args[i].clone();
            }
            other => {
                eprintln!("unknown argument {}", other);
                std::process::exit(2);
            }
        }
        i += 1;
    }
    core::install_panic_hook();
    let Some(prop) = props::find(&id) else {
        eprintln!("unknown property {}", id);
        std::process::exit(2);
    };
    let ctx = Arc::new(Ctx::new(&id, tier, seed, root, &profile));
    if let Some(file) = replay {
        std::process::exit(props::replay_file(&ctx, prop, &file, true));
    }
    if let Some(file) = isolated {
        // supervisor mode (entered by exec from a run whose watchdog fired)
        let code = core::supervise_isolated(&ctx, &file);
        // minimal evidence of this run: the one case that was re-executed
        let _ = ctx.meta.set((prop.rule, prop.assumptions));
        ctx.note(format!("run was replaced by the isolated re-execution of {} after the watchdog fired (time or memory)", file.display()));
        std::process::exit(code);
    }
    let _ = ctx.meta.set((prop.rule, prop.assumptions));
    core::start_watchdog(ctx.clone());
    // 1. regression files (every shrunk failure ever found), then the property's own stages
    // (VERIF_NO_REGRESS=1 is a developer switch used by the sensitivity tests: it shows what the
    // generators find on their own, without the saved regression inputs)
    // developer switch for testing the coverage-guided stage on its own
    let only_fuzz = std::env::var("VERIF_ONLY_FUZZ").is_ok();
    if std::env::var("VERIF_NO_REGRESS").is_err() && !only_fuzz {
        props::replay_regressions(&ctx, prop);
    }
    // committed fuzz corpus through this property's oracle (both tiers)
    // (C19 bounds work: its own stages go from short to long inputs, so that a weakened pruning step
    // is reported from the counters of a short input before a long corpus input becomes slow)
    if !only_fuzz {
        if id != "C19" {
            dmcheck::fuzzstage::corpus_stage(&ctx, prop);
        }
        (prop.run)(&ctx);
        if id == "C19" {
            dmcheck::fuzzstage::corpus_stage(&ctx, prop);
        }
    }
    // coverage-guided stage (thorough tier only; VERIF_NO_FUZZ=1 skips it, VERIF_FUZZ_RUNS overrides the budget)
    // (the fuzz binaries are built separately, always with overflow checks and debug assertions: for the
    // two-profile properties the campaign runs once, in the pass of the checked profile)
    if tier == Tier::Thorough && std::env::var("VERIF_NO_FUZZ").is_err() && profile == "checked" {
        let runs = std::env::var("VERIF_FUZZ_RUNS").ok().and_then(|s| s.parse().ok()).unwrap_or(prop.fuzz_runs);
        if runs > 0 {
            dmcheck::fuzzstage::fuzz_stage(&ctx, prop, runs);
        }
    }
    let extra = (prop.extra)(&ctx);
    let code = ctx.finish(prop.rule, prop.assumptions, extra);
    std::process::exit(code);
}
