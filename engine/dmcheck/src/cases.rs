//! Case types shared by several properties and the mapping between the crate's enums and the
//! reference tables.

use crate::core::{hex, unhex, Case};
use datamatrix::data::DataEncodingError;
use datamatrix::{DataMatrix, DataMatrixBuilder, EncodationType, SymbolList, SymbolSize};
use flagset::FlagSet;
use refimpl::codec::Mode;
use refimpl::table::{Sym, SYMBOLS};
use serde_json::{json, Value};

/// The crate's 48 symbol sizes in the order of `refimpl::table::SYMBOLS`.
pub const CRATE_SYMBOLS: [SymbolSize; 48] = [
    SymbolSize::Square10,
    SymbolSize::Square12,
    SymbolSize::Square14,
    SymbolSize::Square16,
    SymbolSize::Square18,
    SymbolSize::Square20,
    SymbolSize::Square22,
    SymbolSize::Square24,
    SymbolSize::Square26,
    SymbolSize::Square32,
    SymbolSize::Square36,
    SymbolSize::Square40,
    SymbolSize::Square44,
    SymbolSize::Square48,
    SymbolSize::Square52,
    SymbolSize::Square64,
    SymbolSize::Square72,
    SymbolSize::Square80,
    SymbolSize::Square88,
    SymbolSize::Square96,
    SymbolSize::Square104,
    SymbolSize::Square120,
    SymbolSize::Square132,
    SymbolSize::Square144,
    SymbolSize::Rect8x18,
    SymbolSize::Rect8x32,
    SymbolSize::Rect12x26,
    SymbolSize::Rect12x36,
    SymbolSize::Rect16x36,
    SymbolSize::Rect16x48,
    SymbolSize::Rect8x48,
    SymbolSize::Rect8x64,
    SymbolSize::Rect8x80,
    SymbolSize::Rect8x96,
    SymbolSize::Rect8x120,
    SymbolSize::Rect8x144,
    SymbolSize::Rect12x64,
    SymbolSize::Rect12x88,
    SymbolSize::Rect16x64,
    SymbolSize::Rect20x36,
    SymbolSize::Rect20x44,
    SymbolSize::Rect20x64,
    SymbolSize::Rect22x48,
    SymbolSize::Rect24x48,
    SymbolSize::Rect24x64,
    SymbolSize::Rect26x40,
    SymbolSize::Rect26x48,
    SymbolSize::Rect26x64,
];

pub const ALL_MASK: u64 = (1u64 << 48) - 1;

/// mask of the 30 ISO/IEC 16022 sizes
pub fn default_mask() -> u64 {
    let mut m = 0u64;
    for (i, s) in SYMBOLS.iter().enumerate() {
        if s.iso16022 {
            m |= 1 << i;
        }
    }
    m
}

/// Index into SYMBOLS of a crate symbol size, by its Debug name (the only link between the two
/// tables; checked by C12).
pub fn sym_index(s: SymbolSize) -> usize {
    let name = format!("{:?}", s);
    refimpl::table::index_of(&name).unwrap_or_else(|| panic!("unknown symbol size name {}", name))
}

pub fn sym_of(s: SymbolSize) -> &'static Sym {
    &SYMBOLS[sym_index(s)]
}

pub fn mask_to_vec(mask: u64) -> Vec<SymbolSize> {
    (0..48).filter(|i| mask >> i & 1 == 1).map(|i| CRATE_SYMBOLS[i]).collect()
}

pub fn mask_to_list(mask: u64) -> SymbolList {
    if mask == default_mask() {
        SymbolList::default()
    } else if mask == ALL_MASK {
        SymbolList::with_extended_rectangles()
    } else {
        SymbolList::with_whitelist(mask_to_vec(mask))
    }
}

pub fn mask_names(mask: u64) -> Value {
    if mask == default_mask() {
        json!("default")
    } else if mask == ALL_MASK {
        json!("all")
    } else {
        json!((0..48).filter(|i| mask >> i & 1 == 1).map(|i| SYMBOLS[i].name).collect::<Vec<_>>())
    }
}

pub fn names_to_mask(v: &Value) -> Option<u64> {
    match v {
        Value::String(s) if s == "default" => Some(default_mask()),
        Value::String(s) if s == "all" => Some(ALL_MASK),
        Value::Array(a) => {
            let mut m = 0u64;
            for n in a {
                m |= 1 << refimpl::table::index_of(n.as_str()?)?;
            }
            Some(m)
        }
        _ => None,
    }
}

/// Symbols of `mask` in the order required by the property (non-decreasing data capacity; ties
/// are resolved as the crate documents nothing more specific, so any order among equal
/// capacities is accepted where it matters).
pub fn mask_sorted_caps(mask: u64) -> Vec<usize> {
    let mut v: Vec<usize> = (0..48).filter(|i| mask >> i & 1 == 1).map(|i| SYMBOLS[i].data).collect();
    v.sort_unstable();
    v
}

pub const MODE_BITS: [(u8, Mode, &str); 6] = [
    (1, Mode::Ascii, "Ascii"),
    (2, Mode::C40, "C40"),
    (4, Mode::Text, "Text"),
    (8, Mode::X12, "X12"),
    (16, Mode::Edifact, "Edifact"),
    (32, Mode::Base256, "Base256"),
];

pub fn crate_mode(m: Mode) -> EncodationType {
    match m {
        Mode::Ascii => EncodationType::Ascii,
        Mode::C40 => EncodationType::C40,
        Mode::Text => EncodationType::Text,
        Mode::X12 => EncodationType::X12,
        Mode::Edifact => EncodationType::Edifact,
        Mode::Base256 => EncodationType::Base256,
    }
}

pub fn ref_mode(m: EncodationType) -> Mode {
    match m {
        EncodationType::Ascii => Mode::Ascii,
        EncodationType::C40 => Mode::C40,
        EncodationType::Text => Mode::Text,
        EncodationType::X12 => Mode::X12,
        EncodationType::Edifact => Mode::Edifact,
        EncodationType::Base256 => Mode::Base256,
    }
}

pub fn modes_to_flags(bits: u8) -> FlagSet<EncodationType> {
    let mut f = FlagSet::<EncodationType>::default();
    for (b, m, _) in MODE_BITS {
        if bits & b != 0 {
            f |= crate_mode(m);
        }
    }
    f
}

pub fn mode_names(bits: u8) -> Value {
    json!(MODE_BITS.iter().filter(|(b, _, _)| bits & b != 0).map(|(_, _, n)| *n).collect::<Vec<_>>())
}

pub fn names_to_modes(v: &Value) -> Option<u8> {
    let mut bits = 0u8;
    for n in v.as_array()? {
        let n = n.as_str()?;
        bits |= MODE_BITS.iter().find(|(_, _, name)| *name == n)?.0;
    }
    Some(bits)
}

/// One encoder invocation: input + the complete configuration.
#[derive(Debug, Clone, PartialEq, Eq)]
pub struct EncCase {
    pub data: Vec<u8>,
    /// bit i set = SYMBOLS[i] is in the list
    pub list: u64,
    /// bit mask over MODE_BITS
    pub modes: u8,
    pub macros: bool,
    pub fnc1: bool,
    pub eci: Option<u32>,
    /// generator stratum (not part of the identity of the case)
    pub stratum: &'static str,
}

impl Case for EncCase {
    fn to_json(&self) -> Value {
        json!({
            "data": hex(&self.data),
            "symbols": mask_names(self.list),
            "modes": mode_names(self.modes),
            "macros": self.macros,
            "fnc1": self.fnc1,
            "eci": self.eci,
        })
    }
}

impl EncCase {
    pub fn from_json(v: &Value) -> Option<Self> {
        Some(EncCase {
            data: unhex(v["data"].as_str()?)?,
            list: names_to_mask(&v["symbols"])?,
            modes: names_to_modes(&v["modes"])?,
            macros: v["macros"].as_bool()?,
            fnc1: v["fnc1"].as_bool()?,
            eci: v["eci"].as_u64().map(|x| x as u32),
            stratum: "replay",
        })
    }

    pub fn plain(data: &[u8]) -> Self {
        EncCase { data: data.to_vec(), list: default_mask(), modes: 63, macros: true, fnc1: false, eci: None, stratum: "plain" }
    }

    /// canonical identity used for known findings
    pub fn signature(&self) -> String {
        self.to_json().to_string()
    }

    /// The four setters are applied in an order derived from the case (all 24 orders occur), so
    /// that a setter clobbering what another one configured cannot hide behind one fixed call
    /// sequence.  The order is a pure function of the case (replayable).
    pub fn builder(&self) -> DataMatrixBuilder {
        let mut order = [0u8, 1, 2, 3];
        let mut h = crate::core::fnv64(&self.data) ^ self.list ^ (self.modes as u64) << 48 ^ (self.macros as u64) << 57 ^ (self.fnc1 as u64) << 58;
        for i in (1..4).rev() {
            h = crate::core::splitmix(h);
            order.swap(i, (h % (i as u64 + 1)) as usize);
        }
        // both documented ways to obtain a builder with the default configuration
        let mut b = if h & 0x100 == 0 { DataMatrixBuilder::new() } else { DataMatrixBuilder::default() };
        // in half of the cases a setter is only called if the value differs from the documented default
        // (all encodation types, SymbolList::default(), macros enabled, no FNC1 start)
        let omit_defaults = h & 0x200 != 0;
        for k in order {
            if omit_defaults {
                let is_default = match k {
                    0 => self.list == default_mask(),
                    1 => self.modes == 63,
                    2 => self.macros,
                    _ => !self.fnc1,
                };
                if is_default {
                    continue;
                }
            }
            // in a quarter of the cases every setter is first called with a different value: the last
            // call decides ("Specify ...": a setter replaces the earlier choice)
            if h & 0xC00 == 0xC00 {
                b = match k {
                    0 => b.with_symbol_list(SymbolList::with_whitelist([CRATE_SYMBOLS[(h >> 12) as usize % 48]])),
                    1 => b.with_encodation_types(modes_to_flags(((h >> 20) as u8 % 63) + 1)),
                    2 => b.with_macros(!self.macros),
                    _ => b.with_fnc1_start(!self.fnc1),
                };
            }
            b = match k {
                0 => b.with_symbol_list(mask_to_list(self.list)),
                1 => b.with_encodation_types(modes_to_flags(self.modes)),
                2 => b.with_macros(self.macros),
                _ => b.with_fnc1_start(self.fnc1),
            };
        }
        b
    }

    /// Run the encoder through the builder API.
    pub fn encode(&self) -> Result<DataMatrix, DataEncodingError> {
        match self.eci {
            None => self.builder().encode(&self.data),
            Some(e) => self.builder().encode_eci(&self.data, Some(e)),
        }
    }

    pub fn config_is_default(&self) -> bool {
        self.list == default_mask() && self.modes == 63 && !self.fnc1 && self.eci.is_none()
    }

    /// prefix codewords the reference expects before the data (macro / FNC1 / ECI), and the
    /// body the mode encoders see
    pub fn expected_prefix(&self) -> (Vec<u8>, &[u8]) {
        let mut prefix = Vec::new();
        let mut body: &[u8] = &self.data;
        if self.fnc1 {
            prefix.push(232);
        } else if self.macros {
            if let Some((cw, b)) = refimpl::codec::macro_envelope(&self.data) {
                prefix.push(cw);
                body = b;
            }
        }
        if let Some(e) = self.eci {
            prefix.extend(refimpl::codec::eci_codewords(e));
        }
        (prefix, body)
    }
}

/// byte string case
#[derive(Debug, Clone, PartialEq, Eq)]
pub struct BytesCase {
    pub bytes: Vec<u8>,
    pub stratum: &'static str,
}

impl Case for BytesCase {
    fn to_json(&self) -> Value {
        json!({ "bytes": hex(&self.bytes) })
    }
    fn fingerprint(&self) -> u64 {
        crate::core::fnv64(&self.bytes)
    }
}

impl BytesCase {
    pub fn from_json(v: &Value) -> Option<Self> {
        Some(BytesCase { bytes: unhex(v["bytes"].as_str()?)?, stratum: "replay" })
    }
}
