//! Minimisation of a concrete failing case that did not come from a proptest strategy (fuzzer
//! artifacts, corpus files): greedy descent over "simpler" candidates while the property function
//! still returns Fail.  (Failures found by the proptest stages are shrunk by proptest itself.)

use crate::cases::{default_mask, EncCase};
use crate::core::Verdict;

pub trait Shrinkable: Sized + Clone {
    /// strictly simpler variants of `self`, most aggressive first
    fn candidates(&self) -> Vec<Self>;
}

fn bytes_candidates(b: &[u8]) -> Vec<Vec<u8>> {
    let n = b.len();
    let mut out = Vec::new();
    // remove chunks: halves, quarters, ... single bytes (bounded number of candidates)
    let mut size = n / 2;
    while size >= 1 {
        let mut start = 0;
        while start + size <= n && out.len() < 400 {
            let mut v = b[..start].to_vec();
            v.extend_from_slice(&b[start + size..]);
            out.push(v);
            start += size;
        }
        if size == 1 {
            break;
        }
        size /= 2;
    }
    // simplify single bytes
    for i in 0..n.min(200) {
        for simple in [b'0', b'A', b'a'] {
            if b[i] != simple && (b[i] > simple || !b[i].is_ascii_alphanumeric()) {
                let mut v = b.to_vec();
                v[i] = simple;
                out.push(v);
                break;
            }
        }
    }
    out
}

impl Shrinkable for EncCase {
    fn candidates(&self) -> Vec<Self> {
        let mut out = Vec::new();
        let mut push = |f: &dyn Fn(&mut EncCase)| {
            let mut c = self.clone();
            f(&mut c);
            if c != *self {
                out.push(c);
            }
        };
        push(&|c| c.eci = None);
        push(&|c| c.fnc1 = false);
        push(&|c| c.list = default_mask());
        push(&|c| c.modes = 63);
        push(&|c| c.macros = false);
        // fewer symbols / fewer modes
        for i in 0..48 {
            if self.list >> i & 1 == 1 && self.list.count_ones() > 1 {
                push(&|c| c.list &= !(1u64 << i));
            }
        }
        for i in 0..6 {
            if self.modes >> i & 1 == 1 && self.modes.count_ones() > 1 {
                push(&|c| c.modes &= !(1u8 << i));
            }
        }
        for d in bytes_candidates(&self.data) {
            let mut c = self.clone();
            c.data = d;
            out.push(c);
        }
        out
    }
}

impl Shrinkable for crate::cases::BytesCase {
    fn candidates(&self) -> Vec<Self> {
        bytes_candidates(&self.bytes).into_iter().map(|b| crate::cases::BytesCase { bytes: b, stratum: self.stratum }).collect()
    }
}

impl Shrinkable for crate::rsgen::RsCase {
    fn candidates(&self) -> Vec<Self> {
        // restore differing positions (fewer errors), then simplify error values
        let mut out = Vec::new();
        let diff: Vec<usize> = (0..self.received.len()).filter(|i| self.received[*i] != self.original[*i]).collect();
        let mut size = diff.len() / 2;
        while size >= 1 {
            for ch in diff.chunks(size).take(64) {
                let mut c = self.clone();
                for i in ch {
                    c.received[*i] = c.original[*i];
                }
                c.nearest = None;
                out.push(c);
            }
            if size == 1 {
                break;
            }
            size /= 2;
        }
        for i in diff.iter().take(64) {
            if self.received[*i] ^ self.original[*i] != 1 {
                let mut c = self.clone();
                c.received[*i] = c.original[*i] ^ 1;
                c.nearest = None;
                out.push(c);
            }
        }
        out
    }
}

impl Shrinkable for crate::props::c05::BitmapCase {
    fn candidates(&self) -> Vec<Self> {
        Vec::new()
    }
}

/// Greedy minimisation: returns the smallest case found that still fails, with its reason.
pub fn minimise<C: Shrinkable>(start: C, reason: String, check: impl Fn(&C) -> Verdict, budget: usize) -> (C, String) {
    let mut cur = start;
    let mut why = reason;
    let mut spent = 0usize;
    'outer: loop {
        for cand in cur.candidates() {
            spent += 1;
            if spent > budget {
                break 'outer;
            }
            if let Ok(Verdict::Fail(r)) = crate::core::guard(|| check(&cand)) {
                cur = cand;
                why = r;
                continue 'outer;
            }
        }
        break;
    }
    (cur, why)
}
