//! C19 — planning work grows at most linearly with the input length.

use super::Prop;
use crate::cases::*;
use crate::core::*;
use crate::gens::*;
use proptest::collection::vec;
use proptest::prelude::*;
use serde_json::Value;
use std::sync::Arc;

pub static PROP: Prop = Prop {
    id: "C19",
    run,
    replay,
    rule: "inputs up to 3116 bytes built to keep many modes competitive: periodic alternations of period 1-7 over {digit, upper, lower, X12 special, EDIFACT punctuation, control, high byte}, random class walks, long digit / upper runs with single interruptions, plus the class-run generator; x mode subsets x lists; the planner is run through data::encodation_plan and its instrumented counters (hook H1) are read: live plans after pruning <= 36 (number of (start mode, current mode) pairs), Plan::step calls <= 216*(n+1)+6, iterations <= n+1; no stopwatch; non-trivial = n >= 200 and >= 3 character classes; distinct by (input, configuration)",
    assumptions: &["hook H4: the planner run is abandoned once it exceeds 4x the step bound (only a run that already violates the bound is affected)", "hook H1 counters: steps (next to both Plan::step call sites), max_live (after remove_hopeless_cases), iterations", "the constants follow from the statement's own bound of 36 (start, current) pairs: each live plan steps once and spawns at most 5 stepped switches per character"],
    extra: super::no_extra,
    fuzz_runs: 60000,
};

pub fn check(c: &EncCase) -> Verdict {
    let list = mask_to_list(c.list);
    let flags = modes_to_flags(c.modes);
    let n = c.data.len();
    datamatrix::verif::reset_plan_stats();
    // hook H4: a search that explodes is stopped at four times the bound and reported with its count
    // instead of running into the watchdog
    let bound = 216 * (n + 1) + 6;
    datamatrix::verif::set_step_budget(Some(4 * bound));
    let r = guard(|| datamatrix::data::encodation_plan(&c.data, &list, flags).is_some());
    datamatrix::verif::set_step_budget(None);
    let s = datamatrix::verif::last_plan_stats();
    let planned = match r {
        Ok(p) => p,
        Err(_) => return Verdict::Pass(Pass::new("planner-panic(C11)", false).count("planner_panics", 1)),
    };
    if s.calls != 1 || s.input_len != n {
        return Verdict::EngineBug(format!("hook statistics do not belong to this call: {:?}", s));
    }
    let desc = || format!("input of {} bytes {:?}, modes {}, list {}", n, show(&c.data), mode_names(c.modes), mask_names(c.list));
    if s.max_live > 36 {
        return fail(format!("{} candidate plans alive after pruning (bound: 36 (start mode, current mode) pairs); {}", s.max_live, desc()));
    }
    if s.budget_exceeded {
        return fail(format!("the planner was stopped after {} Plan::step calls for {} bytes (four times the bound 216*(n+1)+6 = {}), {} plans alive before pruning; {}", s.steps, n, bound, s.max_before_prune, desc()));
    }
    if s.steps > bound {
        return fail(format!("{} Plan::step calls for {} bytes, bound 216*(n+1)+6 = {}; {}", s.steps, n, bound, desc()));
    }
    if s.iterations > n + 1 {
        return fail(format!("{} planner iterations for {} bytes; {}", s.iterations, n, desc()));
    }
    let mut classes = [false; 7];
    for b in &c.data {
        classes[match b {
            b'0'..=b'9' => 0,
            b'A'..=b'Z' => 1,
            b'a'..=b'z' => 2,
            b' ' | b'\r' | b'*' | b'>' => 3,
            0..=31 => 5,
            128..=255 => 6,
            _ => 4,
        }] = true;
    }
    let ncls = classes.iter().filter(|x| **x).count();
    let nontrivial = n >= 200 && ncls >= 3;
    Verdict::Pass(
        Pass::new(format!("{}/{}/{}", c.stratum, crate::obs::modes_class(c.modes), if planned { "planned" } else { "no-plan" }), nontrivial)
            .max("max_live_plans", s.max_live as u64)
            .max("max_plans_before_prune", s.max_before_prune as u64)
            .max("max_steps_per_char_x100", (s.steps * 100 / (n + 1)) as u64)
            .count("total_steps", s.steps as u64),
    )
}

fn class_gen(class: usize, r: u8) -> u8 {
    match class {
        0 => b'0' + r % 10,
        1 => b'A' + r % 26,
        2 => b'a' + r % 26,
        3 => b" \r*>"[(r % 4) as usize],
        4 => {
            const PUNCT: &[u8] = b"!\"#$%&'()+,-./:;<=?@[\\]^_";
            PUNCT[r as usize % PUNCT.len()]
        }
        5 => r % 32,
        _ => 128 + r % 128,
    }
}

fn g_adversarial(max_len: usize) -> BoxedStrategy<(Vec<u8>, &'static str)> {
    prop_oneof![
        // periodic alternation of period 1..=7
        4 => (vec(0usize..7, 1..=7), vec(1usize..=4, 7), 1usize..=max_len, any::<u64>()).prop_map(|(classes, reps, len, seed)| {
            let rnd = expand(seed, len);
            let mut v = Vec::with_capacity(len);
            let mut k = 0;
            'outer: loop {
                for (i, c) in classes.iter().enumerate() {
                    for _ in 0..reps[i] {
                        if v.len() >= len { break 'outer; }
                        v.push(class_gen(*c, rnd[k % rnd.len()]));
                        k += 1;
                    }
                }
            }
            (v, "periodic")
        }),
        // random class walk: stay in a class with probability 3/4
        3 => (1usize..=max_len, any::<u64>()).prop_map(|(len, seed)| {
            let rnd = expand(seed, 2 * len);
            let mut cls = 0usize;
            let v = (0..len).map(|i| { if rnd[2 * i] % 4 == 0 { cls = (rnd[2 * i] / 4) as usize % 7; } class_gen(cls, rnd[2 * i + 1]) }).collect();
            (v, "class-walk")
        }),
        // a lead of one class (so that one start mode gets ahead) followed by an alternation in which
        // several modes cost the same per character
        3 => (0usize..7, 2usize..=12, vec(0usize..7, 2..=3), 1usize..=max_len, any::<u64>()).prop_map(|(lead, lead_len, alt, len, seed)| {
            let rnd = expand(seed, len);
            let v = (0..len).map(|i| if i < lead_len { class_gen(lead, rnd[i]) } else { class_gen(alt[(i - lead_len) % alt.len()], rnd[i]) }).collect();
            (v, "lead-then-alternation")
        }),
        // long runs with single interruptions
        2 => (0usize..3, 0usize..7, 2usize..40, 1usize..=max_len, any::<u64>()).prop_map(|(base, intr, every, len, seed)| {
            let rnd = expand(seed, len);
            let v = (0..len).map(|i| if i % every == every - 1 { class_gen(intr, rnd[i]) } else { class_gen(base, rnd[i]) }).collect();
            (v, "interrupted-runs")
        }),
        // triples / quads that are just not complete (C40 / X12 / EDIFACT phase games)
        2 => (vec((0usize..7, 1usize..=5), 2..6), 1usize..=max_len, any::<u64>()).prop_map(|(pat, len, seed)| {
            let rnd = expand(seed, len);
            let mut v = Vec::with_capacity(len);
            'outer: loop {
                for (c, r) in &pat {
                    for _ in 0..*r {
                        if v.len() >= len { break 'outer; }
                        v.push(class_gen(*c, rnd[v.len()]));
                    }
                }
            }
            (v, "phase-pattern")
        }),
    ]
    .boxed()
}

fn g_case(max_len: usize) -> BoxedStrategy<EncCase> {
    (g_adversarial(max_len), g_modes(), g_list())
        .prop_map(|((data, stratum), modes, list)| {
            // the probe encode of a fitted list runs the planner too: same budget as in the check, so that a
            // search that explodes cannot hang the generator
            datamatrix::verif::set_step_budget(Some(4 * (216 * (data.len() + 1) + 6)));
            let list = match list {
                ListSpec::Default => default_mask(),
                ListSpec::All => ALL_MASK,
                ListSpec::Mask(m) => m,
                ListSpec::Fit(k) => resolve_fit(&data, modes, false, false, k),
            };
            datamatrix::verif::set_step_budget(None);
            EncCase { data, list, modes, macros: false, fnc1: false, eci: None, stratum }
        })
        .boxed()
}

fn run(ctx: &Arc<Ctx>) {
    // the repository's "very slow" regression input and maximal-length fixed inputs
    let mut fixed = Vec::new();
    for len in [3116usize, 3000, 1555, 1000] {
        for (name, f) in [("digits", (|i: usize| b'0' + (i % 10) as u8) as fn(usize) -> u8), ("alt-Aa", |i| if i % 2 == 0 { b'A' } else { b'a' }), ("alt-A1a*", |i| b"A1a*"[i % 4]), ("alt-7classes", |i| [b'1', b'A', b'a', b'*', b'!', 7u8, 200u8][i % 7]), ("triple-break", |i| if i % 4 == 3 { b'a' } else { b'A' })] {
            let _ = name;
            let data: Vec<u8> = (0..len).map(f).collect();
            for modes in [63u8, 62, 0b001110, 0b110001] {
                fixed.push(EncCase { data: data.clone(), list: default_mask(), modes, macros: false, fnc1: false, eci: None, stratum: "fixed-long" });
            }
        }
    }
    // stages in order of input length: a weakened pruning step shows in the counters of short inputs
    // long before the long inputs become slow (later stages are skipped once a violation is established)
    ctx.run_generated("short", "enc", ctx.cases(30_000, 600_000), || g_case(40), check);
    ctx.run_generated("medium", "enc", ctx.cases(30_000, 600_000), || g_case(300), check);
    let o = EncGenOpts { long_weight: 2, macro_weight: 0, allow_fnc1: false, allow_macros_flag: false, ..Default::default() };
    ctx.run_generated("class-runs", "enc", ctx.cases(30_000, 600_000), || g_enc_case(o), check);
    fixed.sort_by_key(|c| c.data.len());
    ctx.run_enumerated("fixed", "enc", fixed, None, check);
    ctx.run_generated("long", "enc", ctx.cases(6_000, 150_000), || g_case(3116), check);
}

fn replay(_ctx: &Ctx, kind: &str, case: &Value) -> Option<Verdict> {
    match kind {
        "enc" => Some(check(&EncCase::from_json(case)?)),
        _ => None,
    }
}
