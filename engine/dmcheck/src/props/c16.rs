//! C16 — macro 05/06 compaction and GS1 start are exact and lossless.

use super::Prop;
use crate::cases::*;
use crate::core::*;
use crate::gens::*;
use crate::obs::*;
use refimpl::codec::macro_envelope;
use serde_json::Value;
use std::sync::Arc;

pub static PROP: Prop = Prop {
    id: "C16",
    run,
    replay,
    rule: "cases = (input from the macro-envelope strata [full / header only / trailer only / bare header / header+1 / trailer inside / empty body / truncated header] or the class-run generator, mode subset, macro flag, FNC1 flag, list) plus every length 0..=16 around the 7/9 byte thresholds enumerated; oracle = first codeword in {236,237} iff (macros and not FNC1 and header and trailer and len >= 9), body and message via reference decoder, decode_data = input, FNC1 start gives 232 first; non-trivial = input starts with a macro header or ends with RS EOT; distinct by (input, configuration)",
    assumptions: &["reference decoder R1 for the body / header view", "refusals and panics of the encoder are C11's and only counted here"],
    extra: super::no_extra,
    fuzz_runs: 200000,
};

pub fn check(c: &EncCase) -> Verdict {
    if c.list == 0 || c.eci.is_some() {
        return Verdict::Pass(Pass::new("out-of-domain", false));
    }
    let starts = c.data.starts_with(HEAD05) || c.data.starts_with(HEAD06);
    let ends = c.data.ends_with(TRAIL);
    let interesting = starts || ends;
    let env = if c.macros && !c.fnc1 { macro_envelope(&c.data) } else { None };
    let dm = match encode_obs(c) {
        EncOutcome::Ok(dm) => dm,
        EncOutcome::Refused(e) => {
            // a complete envelope is compacted: the macro codeword + the body in plain ASCII is one legal
            // encoding; if that fits the largest listed symbol the message must not be refused
            if let Some((_, body)) = env {
                let need = 1 + refimpl::codec::ascii_greedy(body);
                let largest = mask_sorted_caps(c.list).last().copied().unwrap_or(0);
                if c.modes & 1 == 1 && c.eci.is_none() && need <= largest {
                    return fail(format!("input {:?} ({} bytes) is a complete macro envelope whose compacted form needs at most {} codewords (macro codeword + body as ASCII), the largest listed symbol holds {}, but the encoder refuses: {:?}", show(&c.data), c.data.len(), need, largest, e));
                }
            }
            return Verdict::Pass(Pass::new(format!("{}/refused", c.stratum), false).count("refused", 1));
        }
        EncOutcome::Panic(_) => return Verdict::Pass(Pass::new(format!("{}/encoder-panic(C11)", c.stratum), false).count("encoder_panics", 1)),
    };
    let cw = dm.data_codewords();
    let cw0 = cw.first().copied();
    let is_macro_cw = matches!(cw0, Some(236) | Some(237));
    match env {
        Some((want, body)) => {
            if cw0 != Some(want) {
                return fail(format!("input {:?} is a complete macro envelope (macros on, no FNC1) but the first codeword is {:?}, expected {}", show(&c.data), cw0, want));
            }
            match r1(&dm) {
                Ok(d) => {
                    if d.macro_cw != Some(want) || d.bytes != body {
                        return fail(format!("macro symbol carries body {:?}, expected {:?} (input {:?}, codewords {:?})", show(&d.bytes), show(body), show(&c.data), cw));
                    }
                }
                Err(e) => return fail(format!("reference decoder rejects the macro stream: {} (input {:?}, codewords {:?})", e.0, show(&c.data), cw)),
            }
        }
        None => {
            if is_macro_cw {
                return fail(format!("input {:?} (macros={}, fnc1={}) is not a complete macro envelope but the stream starts with macro codeword {:?}", show(&c.data), c.macros, c.fnc1, cw0));
            }
        }
    }
    if c.fnc1 {
        if cw0 != Some(232) {
            return fail(format!("FNC1 start requested but the first codeword is {:?} (input {:?})", cw0, show(&c.data)));
        }
        match r1(&dm) {
            Ok(d) => {
                if !d.fnc1_first || d.message() != c.data {
                    return fail(format!("GS1 stream decodes to {:?} (fnc1_first={}), input {:?}, codewords {:?}", show(&d.message()), d.fnc1_first, show(&c.data), cw));
                }
            }
            Err(e) => return fail(format!("reference decoder rejects the GS1 stream: {} (input {:?}, codewords {:?})", e.0, show(&c.data), cw)),
        }
    }
    // DataMatrix::encode_gs1 is the documented way to ask for the FNC1 start: same obligations
    if c.fnc1 && c.modes == 63 && c.macros && c.eci.is_none() {
        if let Ok(Ok(w)) = guard(|| datamatrix::DataMatrix::encode_gs1(&c.data, mask_to_list(c.list))) {
            let wcw = w.data_codewords();
            if wcw.first().copied() != Some(232) {
                return fail(format!("DataMatrix::encode_gs1: the first codeword is {:?}, not FNC1 (input {:?})", wcw.first(), show(&c.data)));
            }
            match r1(&w) {
                Ok(d) if d.fnc1_first && d.message() == c.data => {}
                Ok(d) => return fail(format!("DataMatrix::encode_gs1 stream decodes to {:?} (fnc1_first={}), input {:?}, codewords {:?}", show(&d.message()), d.fnc1_first, show(&c.data), wcw)),
                Err(e) => return fail(format!("reference decoder rejects the DataMatrix::encode_gs1 stream: {} (input {:?}, codewords {:?})", e.0, show(&c.data), wcw)),
            }
        }
    }
    match guard(|| datamatrix::data::decode_data(cw)) {
        Ok(Ok(out)) if out == c.data => {}
        Ok(Ok(out)) => return fail(format!("decode_data returns {:?}, input was {:?} (macros={}, fnc1={}, codewords {:?})", show(&out), show(&c.data), c.macros, c.fnc1, cw)),
        Ok(Err(e)) => return fail(format!("decode_data rejects the stream: {:?} (input {:?}, macros={}, fnc1={}, codewords {:?})", e, show(&c.data), c.macros, c.fnc1, cw)),
        Err(p) => return fail(format!("decode_data panicked: {} (input {:?})", p, show(&c.data))),
    }
    let cls = format!(
        "{}/{}{}/{}",
        c.stratum,
        if c.macros { "macros" } else { "nomacros" },
        if c.fnc1 { "+fnc1" } else { "" },
        if env.is_some() { "compacted" } else if starts && ends { "envelope-not-compacted" } else if starts { "header-only" } else if ends { "trailer-only" } else { "plain" }
    );
    Verdict::Pass(Pass::new(cls, interesting).count("compacted", env.is_some() as u64))
}

fn enumerated() -> Vec<EncCase> {
    let mut v = Vec::new();
    for head in [HEAD05, HEAD06] {
        for len in 0..=16usize {
            let mut inputs: Vec<Vec<u8>> = Vec::new();
            // (a) header prefix padded with letters / digits
            for fill in [b'A', b'7'] {
                let mut a: Vec<u8> = head.iter().copied().take(len).collect();
                while a.len() < len {
                    a.push(fill);
                }
                inputs.push(a.clone());
                // (b) same with the trailer written over the end
                if len >= 2 {
                    let mut b = a.clone();
                    b[len - 2] = 0x1e;
                    b[len - 1] = 0x04;
                    inputs.push(b);
                }
                // (c) only the first trailer byte / only the last
                if len >= 1 {
                    let mut b = a.clone();
                    b[len - 1] = 0x04;
                    inputs.push(b);
                    let mut b = a.clone();
                    b[len - 1] = 0x1e;
                    inputs.push(b);
                }
            }
            for data in inputs {
                for modes in [63u8, 1, 62, 32, 2, 16] {
                    for (macros, fnc1) in [(true, false), (false, false), (true, true), (false, true)] {
                        v.push(EncCase { data: data.clone(), list: default_mask(), modes, macros, fnc1, eci: None, stratum: "enumerated-lengths" });
                    }
                }
            }
        }
    }
    // data that begins like something a scanner or another layer would add (symbology identifiers,
    // group separators, the FNC1 / macro codeword values as bytes): it is data, to be kept as it is
    let prefixes: [&[u8]; 14] = [b"]d2", b"]d1", b"]d", b"]C1", b"]Q3", b"]e0", b"\x1d", b"\x1d\x1d", b"\xe8", b"\xec", b"\xed", b"[)>", b"\x1e\x04", b"]D2"];
    let tails: [&[u8]; 5] = [b"", b"0109501101530003", b"A", b"10ABC\x1d2112", b"]d2"];
    for p in prefixes {
        for t in tails {
            for both in [false, true] {
                let mut data = p.to_vec();
                data.extend_from_slice(t);
                if both {
                    data.extend_from_slice(p);
                }
                for modes in [63u8, 1, 62] {
                    for (macros, fnc1) in [(true, false), (false, false), (true, true), (false, true)] {
                        v.push(EncCase { data: data.clone(), list: default_mask(), modes, macros, fnc1, eci: None, stratum: "enumerated-prefixes" });
                    }
                }
            }
        }
    }
    v
}

fn run(ctx: &Arc<Ctx>) {
    ctx.run_enumerated("lengths", "enc", enumerated(), Some("every length 0..=16 of header-prefix / trailer combinations x 6 mode sets x 4 flag combinations; 14 scanner-style prefixes x 5 tails x 3 mode sets x 4 flag combinations"), check);
    let o = EncGenOpts { long_weight: 0, macro_weight: 30, ..Default::default() };
    ctx.run_generated("generated", "enc", ctx.cases(800_000, 5_000_000), || g_enc_case(o), check);
}

fn replay(_ctx: &Ctx, kind: &str, case: &Value) -> Option<Verdict> {
    match kind {
        "enc" => Some(check(&EncCase::from_json(case)?)),
        _ => None,
    }
}
