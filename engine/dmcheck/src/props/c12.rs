//! C12 — symbol catalogue and symbol-list filters match the standards.

use super::c06::{self, RsData};
use super::Prop;
use crate::cases::*;
use crate::core::*;
use crate::gens::*;
use crate::obs::*;
use datamatrix::placement::MatrixMap;
use datamatrix::{DataMatrix, SymbolList, SymbolSize};
use proptest::collection::vec;
use proptest::prelude::*;
use refimpl::place::{self, ModuleKind};
use refimpl::table::SYMBOLS;
use serde_json::{json, Value};
use std::ops::Bound;
use std::sync::Arc;

pub static PROP: Prop = Prop {
    id: "C12",
    run,
    replay,
    rule: "enumerated: 48 sizes x {rows, cols, data, EC, blocks, region grid, uniqueness of dimensions, is_square, is_dmre}; default/extended/all lists; every width and height range with bounds 0..=150 in the six RangeBounds shapes on the default and the extended list; generated: filter chains of length 1-4 over white-lists from 48-bit masks (given in random order with duplicates) and encodings checking iteration order and 'first large enough'; non-trivial = range cases with a bound within +-1 of an existing dimension, lists with capacity ties, chains of >= 2 filters; distinct by case",
    assumptions: &["attribute table R6 transcribed from ISO/IEC 16022 Table 7 and ISO/IEC 21471 Table 1", "crate symbol sizes are linked to the table by their Debug names (Square10 .. Rect26x64)"],
    extra: super::no_extra,
    fuzz_runs: 200000,
};

fn list_mask(l: &SymbolList) -> u64 {
    l.iter().fold(0u64, |m, s| m | 1 << sym_index(s))
}

// ------------------------------------------------------------------------------------------------
// attributes
// ------------------------------------------------------------------------------------------------

#[derive(Debug, Clone)]
pub struct AttrCase(pub usize);
impl Case for AttrCase {
    fn to_json(&self) -> Value {
        json!({"size": SYMBOLS[self.0].name})
    }
}

fn check_attr(c: &AttrCase) -> Verdict {
    let sym = &SYMBOLS[c.0];
    let size = CRATE_SYMBOLS[c.0];
    if format!("{:?}", size) != sym.name {
        return Verdict::EngineBug("name table out of sync".into());
    }
    let dm = match guard(|| DataMatrix::encode(b"", size)) {
        Ok(Ok(dm)) => dm,
        Ok(Err(e)) => return fail(format!("{}: encoding the empty message failed: {:?}", sym.name, e)),
        Err(p) => return fail(format!("{}: encoding the empty message panicked: {}", sym.name, p)),
    };
    if dm.size != size {
        return fail(format!("{}: encode with a single-symbol list returned {:?}", sym.name, dm.size));
    }
    if dm.data_codewords().len() != sym.data {
        return fail(format!("{}: {} data codewords, standard: {}", sym.name, dm.data_codewords().len(), sym.data));
    }
    if dm.codewords().len() - dm.data_codewords().len() != sym.ec {
        return fail(format!("{}: {} error codewords, standard: {}", sym.name, dm.codewords().len() - dm.data_codewords().len(), sym.ec));
    }
    let bm = dm.bitmap();
    if bm.width() != sym.cols || bm.height() != sym.rows {
        return fail(format!("{}: bitmap is {} rows x {} cols, standard: {} x {}", sym.name, bm.height(), bm.width(), sym.rows, sym.cols));
    }
    if size.is_square() != sym.is_square() {
        return fail(format!("{}: is_square() = {}", sym.name, size.is_square()));
    }
    if size.is_dmre() != !sym.iso16022 {
        return fail(format!("{}: is_dmre() = {}, but the size is {}part of ISO/IEC 16022", sym.name, size.is_dmre(), if sym.iso16022 { "" } else { "not " }));
    }
    // region layout: every finder / alignment module where the standard puts it
    let lay = place::layout(sym);
    for (i, k) in lay.iter().enumerate() {
        let want = match k {
            ModuleKind::Solid => true,
            ModuleKind::Clock(d) | ModuleKind::Corner(d) => *d,
            ModuleKind::Data(..) => continue,
        };
        if bm.bits()[i] != want {
            return fail(format!("{}: finder/alignment module (row {}, col {}) is {}, region layout {}x{} of the standard requires {}", sym.name, i / sym.cols, i % sym.cols, bm.bits()[i], sym.reg_v, sym.reg_h, want));
        }
    }
    // interleaving: the RS check of C06 with the standard's block count
    let data: Vec<u8> = (0..sym.data).map(|i| (i as u32 * 73 + 19) as u8).collect();
    if let Verdict::Fail(r) = c06::check(&RsData { sym: c.0, data, stratum: "attr" }) {
        return fail(format!("block structure: {}", r));
    }
    // pixel dimensions identify the size uniquely
    match guard(|| MatrixMap::<bool>::try_from_bits(bm.bits(), bm.width())) {
        Ok(Ok((_, s))) if s == size => {}
        Ok(Ok((_, s))) => return fail(format!("{}: try_from_bits detects {:?}", sym.name, s)),
        Ok(Err(e)) => return fail(format!("{}: try_from_bits rejects the crate's own rendering: {:?}", sym.name, e)),
        Err(p) => return fail(format!("{}: try_from_bits panicked: {}", sym.name, p)),
    }
    Verdict::Pass(Pass::new("attributes", true))
}

// ------------------------------------------------------------------------------------------------
// standard lists
// ------------------------------------------------------------------------------------------------

#[derive(Debug, Clone)]
pub struct NamedList(pub &'static str);
impl Case for NamedList {
    fn to_json(&self) -> Value {
        json!({"list": self.0})
    }
}

fn order_ok(l: &SymbolList) -> Result<(), String> {
    let caps: Vec<usize> = l.iter().map(|s| sym_of(s).data).collect();
    for w in caps.windows(2) {
        if w[0] > w[1] {
            return Err(format!("iteration order is not non-decreasing in data capacity: {:?}", caps));
        }
    }
    let into: Vec<SymbolSize> = l.clone().into_iter().collect();
    let it: Vec<SymbolSize> = l.iter().collect();
    if into != it {
        return Err("iter() and into_iter() disagree".into());
    }
    Ok(())
}

fn check_named(c: &NamedList) -> Verdict {
    let (l, want) = match c.0 {
        "default" => (SymbolList::default(), default_mask()),
        "extended" => (SymbolList::with_extended_rectangles(), ALL_MASK),
        "all" => (SymbolList::all(), ALL_MASK),
        "square" => (SymbolList::all().enforce_square(), mask_where(|s| s.is_square())),
        "rectangular" => (SymbolList::all().enforce_rectangular(), mask_where(|s| !s.is_square())),
        "default-square" => (SymbolList::default().enforce_square(), mask_where(|s| s.is_square() && s.iso16022)),
        "default-rectangular" => (SymbolList::default().enforce_rectangular(), mask_where(|s| !s.is_square() && s.iso16022)),
        "square-then-rect" => (SymbolList::all().enforce_square().enforce_rectangular(), 0),
        "empty-whitelist" => (SymbolList::with_whitelist(Vec::<SymbolSize>::new()), 0),
        "empty-array" => (SymbolList::from([] as [SymbolSize; 0]), 0),
        "one-symbol-twice" => (SymbolList::with_whitelist([SymbolSize::Square16, SymbolSize::Square16]), 1 << 3),
        _ => return Verdict::EngineBug("unknown list".into()),
    };
    let got = list_mask(&l);
    if got != want {
        return fail(format!("list {:?} contains {} but should be exactly {}", c.0, mask_names(got), mask_names(want)));
    }
    if l.iter().count() != want.count_ones() as usize {
        return fail(format!("list {:?} iterates {} symbols, expected {}", c.0, l.iter().count(), want.count_ones()));
    }
    if l.is_empty() != (want == 0) {
        return fail(format!("list {:?}: is_empty() = {}", c.0, l.is_empty()));
    }
    for i in 0..48 {
        if l.contains(&CRATE_SYMBOLS[i]) != (want >> i & 1 == 1) {
            return fail(format!("list {:?}: contains({}) = {}", c.0, SYMBOLS[i].name, l.contains(&CRATE_SYMBOLS[i])));
        }
    }
    if let Err(e) = order_ok(&l) {
        return fail(format!("list {:?}: {}", c.0, e));
    }
    if want == 0 {
        match guard(|| datamatrix::DataMatrix::encode(b"A", l.clone()).map(|d| d.size)) {
            Ok(Err(datamatrix::data::DataEncodingError::SymbolListEmpty)) => {}
            other => return fail(format!("encoding with the empty list {:?} gives {:?}, expected Err(SymbolListEmpty)", c.0, other)),
        }
    }
    Verdict::Pass(Pass::new("named-lists", true))
}

fn mask_where(f: impl Fn(&refimpl::table::Sym) -> bool) -> u64 {
    SYMBOLS.iter().enumerate().fold(0u64, |m, (i, s)| if f(s) { m | 1 << i } else { m })
}

// ------------------------------------------------------------------------------------------------
// range filters
// ------------------------------------------------------------------------------------------------

#[derive(Debug, Clone, Copy, PartialEq, Eq)]
pub enum Shape {
    Range,          // a..b
    RangeInclusive, // a..=b
    RangeFrom,      // a..
    RangeTo,        // ..b
    RangeToInclusive, // ..=b
    RangeFull,      // ..
    ExclIncl,       // (Excluded(a), Included(b))
    ExclExcl,       // (Excluded(a), Excluded(b))
}

const SHAPES: [Shape; 8] = [Shape::Range, Shape::RangeInclusive, Shape::RangeFrom, Shape::RangeTo, Shape::RangeToInclusive, Shape::RangeFull, Shape::ExclIncl, Shape::ExclExcl];

#[derive(Debug, Clone, Copy, PartialEq, Eq)]
pub enum Filter {
    /// `Extend<SymbolSize>`: symbols given as a 48-bit mask are added (set union)
    Extend(u64),
    Square,
    Rect,
    Width(Shape, usize, usize),
    Height(Shape, usize, usize),
}

fn shape_contains(s: Shape, a: usize, b: usize, x: usize) -> bool {
    match s {
        Shape::Range => a <= x && x < b,
        Shape::RangeInclusive => a <= x && x <= b,
        Shape::RangeFrom => a <= x,
        Shape::RangeTo => x < b,
        Shape::RangeToInclusive => x <= b,
        Shape::RangeFull => true,
        Shape::ExclIncl => a < x && x <= b,
        Shape::ExclExcl => a < x && x < b,
    }
}

fn apply_width(l: SymbolList, s: Shape, a: usize, b: usize) -> SymbolList {
    match s {
        Shape::Range => l.enforce_width_in(a..b),
        Shape::RangeInclusive => l.enforce_width_in(a..=b),
        Shape::RangeFrom => l.enforce_width_in(a..),
        Shape::RangeTo => l.enforce_width_in(..b),
        Shape::RangeToInclusive => l.enforce_width_in(..=b),
        Shape::RangeFull => l.enforce_width_in(..),
        Shape::ExclIncl => l.enforce_width_in((Bound::Excluded(a), Bound::Included(b))),
        Shape::ExclExcl => l.enforce_width_in((Bound::Excluded(a), Bound::Excluded(b))),
    }
}

fn apply_height(l: SymbolList, s: Shape, a: usize, b: usize) -> SymbolList {
    match s {
        Shape::Range => l.enforce_height_in(a..b),
        Shape::RangeInclusive => l.enforce_height_in(a..=b),
        Shape::RangeFrom => l.enforce_height_in(a..),
        Shape::RangeTo => l.enforce_height_in(..b),
        Shape::RangeToInclusive => l.enforce_height_in(..=b),
        Shape::RangeFull => l.enforce_height_in(..),
        Shape::ExclIncl => l.enforce_height_in((Bound::Excluded(a), Bound::Included(b))),
        Shape::ExclExcl => l.enforce_height_in((Bound::Excluded(a), Bound::Excluded(b))),
    }
}

fn apply(l: SymbolList, f: Filter) -> SymbolList {
    match f {
        Filter::Extend(m) => {
            let mut l = l;
            l.extend(mask_to_vec(m));
            l
        }
        Filter::Square => l.enforce_square(),
        Filter::Rect => l.enforce_rectangular(),
        Filter::Width(s, a, b) => apply_width(l, s, a, b),
        Filter::Height(s, a, b) => apply_height(l, s, a, b),
    }
}

fn model(mask: u64, f: Filter) -> u64 {
    if let Filter::Extend(m) = f {
        return mask | m;
    }
    (0..48).filter(|i| mask >> i & 1 == 1).filter(|i| {
        let s = &SYMBOLS[*i];
        match f {
            Filter::Extend(_) => true,
            Filter::Square => s.rows == s.cols,
            Filter::Rect => s.rows != s.cols,
            Filter::Width(sh, a, b) => shape_contains(sh, a, b, s.cols),
            Filter::Height(sh, a, b) => shape_contains(sh, a, b, s.rows),
        }
    }).fold(0u64, |m, i| m | 1 << i)
}

fn filter_json(f: &Filter) -> Value {
    match f {
        Filter::Extend(m) => json!({"extend": mask_names(*m)}),
        Filter::Square => json!("square"),
        Filter::Rect => json!("rectangular"),
        Filter::Width(s, a, b) => json!({"width": format!("{:?}", s), "a": a, "b": b}),
        Filter::Height(s, a, b) => json!({"height": format!("{:?}", s), "a": a, "b": b}),
    }
}

fn filter_from(v: &Value) -> Option<Filter> {
    if v == "square" {
        return Some(Filter::Square);
    }
    if v == "rectangular" {
        return Some(Filter::Rect);
    }
    if let Some(e) = v.get("extend") {
        return Some(Filter::Extend(names_to_mask(e)?));
    }
    let (key, is_w) = if v.get("width").is_some() { ("width", true) } else { ("height", false) };
    let shape = SHAPES.iter().copied().find(|s| format!("{:?}", s) == v[key].as_str().unwrap_or(""))?;
    let (a, b) = (v["a"].as_u64()? as usize, v["b"].as_u64()? as usize);
    Some(if is_w { Filter::Width(shape, a, b) } else { Filter::Height(shape, a, b) })
}

#[derive(Debug, Clone)]
pub struct ChainCase {
    /// white-list given to with_whitelist, as indices (may contain duplicates, any order)
    pub whitelist: Vec<usize>,
    pub base: &'static str, // "whitelist" | "default" | "all"
    pub chain: Vec<Filter>,
}

impl Case for ChainCase {
    fn to_json(&self) -> Value {
        json!({"base": self.base, "whitelist": self.whitelist.iter().map(|i| SYMBOLS[*i].name).collect::<Vec<_>>(), "chain": self.chain.iter().map(filter_json).collect::<Vec<_>>()})
    }
}

impl ChainCase {
    fn from_json(v: &Value) -> Option<Self> {
        let base = match v["base"].as_str()? {
            "default" => "default",
            "all" => "all",
            "collect" => "collect",
            "from-array" => "from-array",
            _ => "whitelist",
        };
        let whitelist = v["whitelist"].as_array()?.iter().map(|n| refimpl::table::index_of(n.as_str()?)).collect::<Option<Vec<_>>>()?;
        let chain = v["chain"].as_array()?.iter().map(filter_from).collect::<Option<Vec<_>>>()?;
        Some(ChainCase { whitelist, base, chain })
    }
}

fn near_dimension(x: usize, cols: bool) -> bool {
    SYMBOLS.iter().any(|s| {
        let d = if cols { s.cols } else { s.rows };
        x.saturating_add(1) >= d && x <= d + 1
    })
}

fn check_chain(c: &ChainCase) -> Verdict {
    let (mut l, mut m) = match c.base {
        "default" => (SymbolList::default(), default_mask()),
        "all" => (SymbolList::all(), ALL_MASK),
        "collect" => (c.whitelist.iter().map(|i| CRATE_SYMBOLS[*i]).collect::<SymbolList>(), c.whitelist.iter().fold(0u64, |m, i| m | 1 << i)),
        "from-array" => {
            // From<[SymbolSize; N]> for N = 0..=3 and From<SymbolSize>
            let w: Vec<SymbolSize> = c.whitelist.iter().take(3).map(|i| CRATE_SYMBOLS[*i]).collect();
            let m = c.whitelist.iter().take(3).fold(0u64, |m, i| m | 1 << i);
            let l = match w.len() {
                0 => SymbolList::from([] as [SymbolSize; 0]),
                1 => SymbolList::from(w[0]),
                2 => SymbolList::from([w[0], w[1]]),
                _ => SymbolList::from([w[0], w[1], w[2]]),
            };
            (l, m)
        }
        _ => (SymbolList::with_whitelist(c.whitelist.iter().map(|i| CRATE_SYMBOLS[*i])), c.whitelist.iter().fold(0u64, |m, i| m | 1 << i)),
    };
    let r = guard(|| {
        for f in &c.chain {
            l = apply(l.clone(), *f);
            m = model(m, *f);
            let got = list_mask(&l);
            if got != m {
                return Err(format!("after filter {} the list is {} but exactly {} satisfy the predicate", filter_json(f), mask_names(got), mask_names(m)));
            }
        }
        if l.iter().count() != m.count_ones() as usize {
            return Err(format!("list iterates {} symbols, {} expected (duplicates?)", l.iter().count(), m.count_ones()));
        }
        if l.is_empty() != (m == 0) {
            return Err(format!("is_empty() = {} for {}", l.is_empty(), mask_names(m)));
        }
        order_ok(&l)?;
        for i in 0..48 {
            if l.contains(&CRATE_SYMBOLS[i]) != (m >> i & 1 == 1) {
                return Err(format!("contains({}) = {} but iteration says the opposite (list {})", SYMBOLS[i].name, l.contains(&CRATE_SYMBOLS[i]), mask_names(m)));
            }
        }
        Ok(())
    });
    match r {
        Ok(Ok(())) => {}
        Ok(Err(e)) => return fail(e),
        Err(p) => return fail(format!("filter chain panicked: {}", p)),
    }
    let near = c.chain.iter().any(|f| match f {
        Filter::Width(_, a, b) => near_dimension(*a, true) || near_dimension(*b, true),
        Filter::Height(_, a, b) => near_dimension(*a, false) || near_dimension(*b, false),
        _ => false,
    });
    let caps = mask_sorted_caps(m);
    let ties = caps.windows(2).any(|w| w[0] == w[1]);
    Verdict::Pass(Pass::new(format!("chain{}/{}", c.chain.len().min(4), c.base), near || ties || c.chain.len() >= 2))
}

fn g_filter() -> BoxedStrategy<Filter> {
    let dims = || prop_oneof![
        3 => (0usize..=150),
        2 => (any::<u16>(), 0usize..3).prop_map(|(r, d)| { let s = &SYMBOLS[pick(r, 48)]; (s.cols + d).saturating_sub(1) }),
        2 => (any::<u16>(), 0usize..3).prop_map(|(r, d)| { let s = &SYMBOLS[pick(r, 48)]; (s.rows + d).saturating_sub(1) }),
    ];
    prop_oneof![
        1 => Just(Filter::Square),
        1 => Just(Filter::Rect),
        // Extend by one to four symbols (they may already be in the list)
        2 => vec(any::<u16>(), 1..=4).prop_map(|v| Filter::Extend(v.iter().fold(0u64, |m, r| m | 1 << pick(*r, 48)))),
        4 => (any::<u16>(), dims(), dims()).prop_map(|(s, a, b)| Filter::Width(SHAPES[pick(s, 8)], a, b)),
        4 => (any::<u16>(), dims(), dims()).prop_map(|(s, a, b)| Filter::Height(SHAPES[pick(s, 8)], a, b)),
    ]
    .boxed()
}

fn g_chain() -> BoxedStrategy<ChainCase> {
    (any::<u16>(), vec(any::<u16>(), 0..60), vec(g_filter(), 0..=4))
        .prop_map(|(b, wl, chain)| {
            let base = ["whitelist", "whitelist", "default", "all", "collect", "from-array"][pick(b, 6)];
            ChainCase { whitelist: wl.iter().map(|r| pick(*r, 48)).collect(), base, chain }
        })
        .boxed()
}

// ------------------------------------------------------------------------------------------------
// symbol picked = first of the iteration order that is large enough
// ------------------------------------------------------------------------------------------------

pub fn check_pick(c: &EncCase) -> Verdict {
    if c.list == 0 {
        return Verdict::Pass(Pass::new("pick/empty-list", false));
    }
    let dm = match encode_obs(c) {
        EncOutcome::Ok(dm) => dm,
        EncOutcome::Refused(e) => {
            // "the symbol picked is the first that is large enough": if plain ASCII encodation (digit pairs,
            // upper shift) of the message demonstrably fits a listed symbol, one must be picked
            if c.modes & 1 == 1 {
                let (prefix, body) = c.expected_prefix();
                let need = prefix.len() + refimpl::codec::ascii_greedy(body);
                if let Some(cap) = mask_sorted_caps(c.list).into_iter().find(|x| *x >= need) {
                    return fail(format!("no symbol is picked ({:?}) although plain ASCII encodation needs {} codewords and the list {} has a symbol with {} data codewords (input of {} bytes: {:?})", e, need, mask_names(c.list), cap, c.data.len(), show(&c.data)));
                }
            }
            return Verdict::Pass(Pass::new("pick/refused", false));
        }
        EncOutcome::Panic(_) => return Verdict::Pass(Pass::new("pick/encoder-panic(C11)", false)),
    };
    let list = mask_to_list(c.list);
    if !list.contains(&dm.size) || c.list >> sym_index(dm.size) & 1 == 0 {
        return fail(format!("encoder returned {:?} which is not in the list {}", dm.size, mask_names(c.list)));
    }
    let Ok(d) = r1(&dm) else { return Verdict::Pass(Pass::new("pick/stream-not-conformant(C02)", false)) };
    let used = d.unpadded_len();
    let order: Vec<SymbolSize> = list.iter().collect();
    for s in order {
        if s == dm.size {
            break;
        }
        if sym_of(s).data >= used {
            return fail(format!("encoder picked {:?} ({} data codewords) for a stream of {} codewords although {:?} ({} data codewords) comes earlier in the list order and is large enough", dm.size, sym_of(dm.size).data, used, s, sym_of(s).data));
        }
    }
    let caps = mask_sorted_caps(c.list);
    let ties = caps.windows(2).any(|w| w[0] == w[1]);
    Verdict::Pass(Pass::new(format!("pick/{}", list_class(c.list)), ties || c.list != default_mask()))
}

#[derive(Debug, Clone)]
pub struct CollisionCase(pub usize);
impl Case for CollisionCase {
    fn to_json(&self) -> Value {
        json!({"size": SYMBOLS[self.0].name})
    }
}

fn check_collision(c: &CollisionCase) -> Verdict {
    let sym = &SYMBOLS[c.0];
    let base = refimpl::place::render(sym, &vec![0x3c; sym.total()]);
    let mut n = 0;
    for (w, h) in [(sym.cols - 1, sym.rows + 256), (sym.cols - 2, sym.rows + 512), (sym.cols - 1, sym.rows + 128), (sym.cols, sym.rows + 256), (sym.cols + 1, sym.rows + 65_280)] {
        if h > 70_000 / w.max(1) {
            continue;
        }
        let bits: Vec<bool> = (0..w * h).map(|i| base[((i / w) % sym.rows) * sym.cols + (i % w) % sym.cols]).collect();
        match guard(|| datamatrix::placement::MatrixMap::<bool>::try_from_bits(&bits, w).map(|(_, s)| s)) {
            Ok(Err(datamatrix::placement::BitmapConversionError::SymbolSize)) => n += 1,
            Ok(other) => return fail(format!("{} x {} pixels (no symbol has these dimensions; they collide with {} under a packed key): try_from_bits returns {:?}, expected Err(SymbolSize)", w, h, sym.name, other)),
            Err(p) => return fail(format!("{} x {} pixels: try_from_bits panicked: {}", w, h, p)),
        }
    }
    Verdict::Pass(Pass::new("dimension-collisions", true).count("colliding_shapes", n))
}

#[derive(Debug, Clone)]
pub struct RangeSweep {
    pub height: bool,
    pub base_all: bool,
    pub a: usize,
}
impl Case for RangeSweep {
    fn to_json(&self) -> Value {
        json!({"sweep": if self.height { "height" } else { "width" }, "base": if self.base_all { "all" } else { "default" }, "a": self.a})
    }
}

/// all shapes x all b in 0..=150 for a fixed a
fn check_sweep(c: &RangeSweep) -> Verdict {
    for b in 0..=150usize {
        for sh in SHAPES {
            let f = if c.height { Filter::Height(sh, c.a, b) } else { Filter::Width(sh, c.a, b) };
            let case = ChainCase { whitelist: vec![], base: if c.base_all { "all" } else { "default" }, chain: vec![f] };
            if let Verdict::Fail(r) = check_chain(&case) {
                return fail(format!("{} (case {})", r, case.to_json()));
            }
        }
    }
    Verdict::Pass(Pass::new("range-sweep", near_dimension(c.a, !c.height)).count("ranges_checked", 151 * 8))
}

fn run(ctx: &Arc<Ctx>) {
    ctx.run_enumerated("attributes", "attr", (0..48).map(AttrCase).collect(), Some("all 48 sizes x all attributes"), check_attr);
    let named = ["default", "extended", "all", "square", "rectangular", "default-square", "default-rectangular", "square-then-rect", "empty-whitelist", "empty-array", "one-symbol-twice"].iter().map(|s| NamedList(s)).collect();
    ctx.run_enumerated("named-lists", "named", named, Some("default / extended / all / square / rectangular lists"), check_named);
    let mut sweeps = Vec::new();
    for height in [false, true] {
        for base_all in [false, true] {
            for a in 0..=150 {
                sweeps.push(RangeSweep { height, base_all, a });
            }
        }
    }
    ctx.run_enumerated("range-sweep", "sweep", sweeps, Some("every width and height range with bounds 0..=150 in 8 RangeBounds shapes on the default and extended list"), check_sweep);
    // bounds at the edges of usize and around the smallest / largest dimensions, all 8 shapes
    let edge = [0usize, 1, 7, 8, 9, 10, 11, 143, 144, 145, usize::MAX - 1, usize::MAX];
    let mut extremes = Vec::new();
    for base in ["default", "all"] {
        for a in edge {
            for b in edge {
                for sh in SHAPES {
                    extremes.push(ChainCase { whitelist: vec![], base, chain: vec![Filter::Width(sh, a, b)] });
                    extremes.push(ChainCase { whitelist: vec![], base, chain: vec![Filter::Height(sh, a, b)] });
                }
            }
        }
    }
    ctx.run_enumerated("extreme-bounds", "chain", extremes, Some("width / height filters with both bounds from {0, 1, 7..11, 143..145, usize::MAX-1, usize::MAX} in 8 RangeBounds shapes"), check_chain);
    // pixel dimensions identify a size uniquely: arrays whose dimensions only collide with a catalogue
    // size under a packed key (width * 2^k + height) are not symbols
    let mut coll = Vec::new();
    for i in 0..48 {
        coll.push(CollisionCase(i));
    }
    ctx.run_enumerated("dimension-collisions", "collision", coll, Some("for each size W x H: arrays of (W-1) x (H+256), (W-2) x (H+512), (W-1) x (H+128), W x (H+256) must be rejected as unknown dimensions"), check_collision);
    ctx.run_generated("chains", "chain", ctx.cases(300_000, 3_000_000), g_chain, check_chain);
    let o = EncGenOpts { long_weight: 1, macro_weight: 1, allow_fnc1: false, ..Default::default() };
    ctx.run_generated("pick", "enc", ctx.cases(300_000, 2_000_000), || g_enc_case(o), check_pick);
}

fn replay(_ctx: &Ctx, kind: &str, case: &Value) -> Option<Verdict> {
    match kind {
        "attr" => Some(check_attr(&AttrCase(refimpl::table::index_of(case["size"].as_str()?)?))),
        "named" => {
            let n = case["list"].as_str()?;
            let s = ["default", "extended", "all", "square", "rectangular", "default-square", "default-rectangular", "square-then-rect", "empty-whitelist", "empty-array", "one-symbol-twice"].into_iter().find(|x| *x == n)?;
            Some(check_named(&NamedList(s)))
        }
        "sweep" => Some(check_sweep(&RangeSweep { height: case["sweep"] == "height", base_all: case["base"] == "all", a: case["a"].as_u64()? as usize })),
        "collision" => Some(check_collision(&CollisionCase(refimpl::table::index_of(case["size"].as_str()?)?))),
        "chain" => Some(check_chain(&ChainCase::from_json(case)?)),
        "enc" => Some(check_pick(&EncCase::from_json(case)?)),
        _ => None,
    }
}
