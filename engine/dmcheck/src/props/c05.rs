//! C05 — decoding untrusted input never panics or hangs.

use super::Prop;
use crate::cases::*;
use crate::core::*;
use crate::gens::*;
use crate::rsgen::*;
use datamatrix::placement::MatrixMap;
use datamatrix::DataMatrix;
use proptest::collection::vec;
use proptest::prelude::*;
use refimpl::gf;
use refimpl::place;
use refimpl::table::SYMBOLS;
use serde_json::{json, Value};
use std::sync::Arc;

pub static PROP: Prop = Prop {
    id: "C05",
    run,
    replay,
    rule: "calls of decode_data + decode_str (arbitrary / special-value weighted / latch-first / mutated valid streams; enumerated: all streams of length <= 2, all [latch,a,b], all [241,a,b,c] with a in 192..=207 or boundary values, 256 bytes x ECI 3/11/13/26/27), decode_error on words of exactly the symbol's length (random, within radius, beyond radius, near-miss, zero-syndrome-prefix, prescribed syndrome patterns, single errors incl. last EC codeword of each block), try_from_bits + DataMatrix::decode (arbitrary arrays, width 0, non-dividing widths, all 48 real dimension pairs with random content, valid frames with random / RS-valid interiors so that error correction and data decoding are reached); oracle = the call returns (Ok or Err), any unwind is a violation, in a plain release build and in a build with overflow checks + debug assertions; non-trivial = the call got past input validation (RS: received word is not a codeword; data: stream contains a latch / ECI / upper shift codeword; bitmap: dimensions match a symbol size); distinct by input",
    assumptions: &["decode_error is only called with vectors of exactly the symbol's codeword count (documented precondition)", "termination: 60 s watchdog per call, confirmed in an isolated child process before it is reported"],
    extra: super::no_extra,
    fuzz_runs: 100000,
};

// ---------------------------------------------------------------------------------------------
// data codeword streams
// ---------------------------------------------------------------------------------------------

const SPECIAL: [u8; 26] = [0, 1, 2, 31, 49, 127, 128, 129, 130, 229, 230, 231, 232, 233, 234, 235, 236, 237, 238, 239, 240, 241, 242, 253, 254, 255];
const BOUNDARY: [u8; 12] = [0, 1, 2, 127, 128, 191, 192, 207, 208, 253, 254, 255];
const LATCHES: [u8; 7] = [230, 231, 235, 238, 239, 240, 241];

pub fn check_stream(c: &BytesCase) -> Verdict {
    let cw = &c.bytes;
    let r1 = guard(|| datamatrix::data::decode_data(cw).is_ok());
    let r1 = match r1 {
        Ok(ok) => ok,
        Err(p) => return fail(format!("data::decode_data panicked: {} (codewords {:?})", p, &cw[..cw.len().min(60)])),
    };
    let r2 = guard(|| datamatrix::data::decode_str(cw).is_ok());
    let r2 = match r2 {
        Ok(ok) => ok,
        Err(p) => return fail(format!("data::decode_str panicked: {} (codewords {:?})", p, &cw[..cw.len().min(60)])),
    };
    let nontrivial = cw.iter().any(|b| LATCHES.contains(b));
    Verdict::Pass(Pass::new(format!("{}/{}{}", c.stratum, if r1 { "data-ok" } else { "data-err" }, if r2 { "/str-ok" } else { "/str-err" }), nontrivial))
}

fn weighted_byte() -> impl Strategy<Value = u8> {
    (any::<u16>(), any::<u8>()).prop_map(|(k, b)| if k % 2 == 0 { SPECIAL[pick(k, SPECIAL.len())] } else { b })
}

fn g_stream() -> BoxedStrategy<BytesCase> {
    let valid = (g_bytes_short(), g_modes(), vec((any::<u16>(), weighted_byte()), 0..=3), any::<u16>()).prop_map(|((data, _), modes, muts, cut)| {
        let list = datamatrix::SymbolList::default();
        let mut cw = match guard(|| datamatrix::data::encode_data(&data, &list, None, modes_to_flags(modes), true)) {
            Ok(Ok((cw, _))) => cw,
            _ => vec![129],
        };
        for (p, v) in muts {
            let i = pick(p, cw.len());
            cw[i] = v;
        }
        if cut % 4 == 0 {
            let n = pick(cut, cw.len() + 1);
            cw.truncate(n);
        }
        BytesCase { bytes: cw, stratum: "valid-mutated" }
    });
    prop_oneof![
        2 => vec(any::<u8>(), 0..40).prop_map(|b| BytesCase { bytes: b, stratum: "uniform" }),
        4 => vec(weighted_byte(), 0..24).prop_map(|b| BytesCase { bytes: b, stratum: "weighted" }),
        3 => (any::<u16>(), vec(weighted_byte(), 0..14)).prop_map(|(l, mut b)| { b.insert(0, LATCHES[pick(l, 7)]); BytesCase { bytes: b, stratum: "latch-first" } }),
        2 => (any::<u16>(), vec(weighted_byte(), 0..10), any::<u16>(), vec(weighted_byte(), 0..10)).prop_map(|(l, a, l2, b)| {
            let mut v = vec![LATCHES[pick(l, 7)]];
            v.extend(a);
            v.push(254);
            v.push(LATCHES[pick(l2, 7)]);
            v.extend(b);
            BytesCase { bytes: v, stratum: "two-latches" }
        }),
        4 => valid,
        2 => (vec(weighted_byte(), 1..4), vec(any::<u8>(), 0..12)).prop_map(|(d, payload)| {
            let mut v = vec![241];
            v.extend(d);
            for b in payload { if b < 128 { v.push(b + 1) } else { v.push(235); v.push(b - 127) } }
            BytesCase { bytes: v, stratum: "eci-payload" }
        }),
        1 => (any::<bool>(), vec(weighted_byte(), 0..16)).prop_map(|(six, mut b)| { b.insert(0, if six { 237 } else { 236 }); BytesCase { bytes: b, stratum: "macro-first" } }),
    ]
    .boxed()
}

fn enum_short() -> Vec<BytesCase> {
    let mut v = vec![BytesCase { bytes: vec![], stratum: "enum-len0" }];
    for a in 0..=255u8 {
        v.push(BytesCase { bytes: vec![a], stratum: "enum-len1" });
        for b in 0..=255u8 {
            v.push(BytesCase { bytes: vec![a, b], stratum: "enum-len2" });
        }
    }
    v
}

fn enum_latch() -> Vec<BytesCase> {
    let mut v = Vec::new();
    for l in LATCHES {
        for a in 0..=255u8 {
            for b in 0..=255u8 {
                v.push(BytesCase { bytes: vec![l, a, b], stratum: "enum-latch-a-b" });
            }
        }
        // one more codeword from the boundary set behind every boundary pair
        for a in BOUNDARY {
            for b in BOUNDARY {
                for c in BOUNDARY {
                    v.push(BytesCase { bytes: vec![l, a, b, c], stratum: "enum-latch-boundary3" });
                    v.push(BytesCase { bytes: vec![l, a, b, c, 129], stratum: "enum-latch-boundary3+pad" });
                }
            }
        }
    }
    v
}

fn enum_eci(all_three_byte: bool) -> Vec<BytesCase> {
    let mut v = Vec::new();
    // three-codeword designators: first byte 192..=207
    let firsts: Vec<u8> = if all_three_byte { (192..=207).collect() } else { vec![192, 200, 207] };
    for a in firsts {
        for b in 0..=255u8 {
            for c in 0..=255u8 {
                v.push(BytesCase { bytes: vec![241, a, b, c], stratum: "enum-eci-3byte" });
            }
        }
    }
    for a in BOUNDARY {
        for b in BOUNDARY {
            for c in BOUNDARY {
                v.push(BytesCase { bytes: vec![241, a, b, c, 66], stratum: "enum-eci-boundary" });
            }
        }
    }
    v
}

/// Base256 segments whose announced length L (one- and two-codeword fields, correctly randomised)
/// differs from what actually follows by -2 ..= +1 codewords, behind 0..2 ASCII codewords; also a
/// two-codeword field whose second half is missing.
fn enum_base256_lengths() -> Vec<BytesCase> {
    let mut v = Vec::new();
    for pre in 0..3usize {
        for l in [1usize, 2, 3, 100, 248, 249, 250, 251, 252, 499, 500, 501, 749, 750, 751, 1000, 1304, 1305, 1553, 1554, 1555, 1556] {
            for d in [-2isize, -1, 0, 1] {
                let rest = l as isize + d;
                if rest < 0 {
                    continue;
                }
                let mut s = vec![66u8; pre];
                s.push(231);
                let field: Vec<u8> = if l < 250 { vec![l as u8] } else { vec![(l / 250 + 249) as u8, (l % 250) as u8] };
                for f in field {
                    let p = s.len() + 1;
                    s.push(refimpl::codec::rand255(f, p));
                }
                for i in 0..rest as usize {
                    let p = s.len() + 1;
                    s.push(refimpl::codec::rand255((i * 7 + 65) as u8, p));
                }
                v.push(BytesCase { bytes: s, stratum: "enum-base256-announced-length" });
            }
        }
        for first in 250..=255u8 {
            let mut s = vec![66u8; pre];
            s.push(231);
            let p = s.len() + 1;
            s.push(refimpl::codec::rand255(first, p));
            v.push(BytesCase { bytes: s, stratum: "enum-base256-half-length-field" });
        }
    }
    v
}

fn enum_charsets() -> Vec<BytesCase> {
    let mut v = Vec::new();
    for eci in [0u8, 3, 11, 13, 26, 27, 4, 20, 25, 30, 31, 126] {
        for b in 0..=255u8 {
            let mut s = vec![241, eci + 1];
            if b < 128 {
                s.push(b + 1)
            } else {
                s.push(235);
                s.push(b - 127)
            }
            v.push(BytesCase { bytes: s.clone(), stratum: "enum-charset-byte" });
            // the byte carried by Base256 instead of ASCII
            let mut s2 = vec![241, eci + 1, 231];
            s2.push(refimpl::codec::rand255(1, 4));
            s2.push(refimpl::codec::rand255(b, 5));
            v.push(BytesCase { bytes: s2, stratum: "enum-charset-byte-b256" });
        }
    }
    v
}

// ---------------------------------------------------------------------------------------------
// received words
// ---------------------------------------------------------------------------------------------

pub fn check_rs(c: &RsCase) -> Verdict {
    let sym = c.sym();
    if c.received.len() != sym.total() {
        return Verdict::EngineBug("length precondition".into());
    }
    let mut w = c.received.clone();
    let size = CRATE_SYMBOLS[c.sym];
    let r = match guard(|| datamatrix::errorcode::decode_error(&mut w, size).is_ok()) {
        Ok(r) => r,
        Err(p) => return fail(format!("{}: errorcode::decode_error panicked: {} (received word {} ...; differs from a codeword as {})", sym.name, p, hex(&c.received[..c.received.len().min(24)]), c.error_summary())),
    };
    let nontrivial = !gf::is_codeword(sym, &c.received);
    Verdict::Pass(Pass::new(format!("rs/{}/blocks{}/{}", c.stratum, sym.blocks, if r { "ok" } else { "err" }), nontrivial))
}

// ---------------------------------------------------------------------------------------------
// bitmaps
// ---------------------------------------------------------------------------------------------

#[derive(Debug, Clone)]
pub struct BitmapCase {
    pub width: usize,
    pub bits: Vec<bool>,
    pub stratum: &'static str,
}

impl Case for BitmapCase {
    fn to_json(&self) -> Value {
        json!({"width": self.width, "bits": self.bits.iter().map(|b| if *b { '1' } else { '0' }).collect::<String>()})
    }
    fn fingerprint(&self) -> u64 {
        let bytes: Vec<u8> = self.bits.iter().map(|b| *b as u8).collect();
        fnv64(&bytes) ^ splitmix(self.width as u64)
    }
}

impl BitmapCase {
    pub fn from_json(v: &Value) -> Option<Self> {
        Some(BitmapCase { width: v["width"].as_u64()? as usize, bits: v["bits"].as_str()?.chars().map(|c| c == '1').collect(), stratum: "replay" })
    }
}

pub fn check_bitmap(c: &BitmapCase) -> Verdict {
    let r1 = match guard(|| MatrixMap::<bool>::try_from_bits(&c.bits, c.width).is_ok()) {
        Ok(r) => r,
        Err(p) => return fail(format!("MatrixMap::try_from_bits panicked: {} ({} bits, width {})", p, c.bits.len(), c.width)),
    };
    let r2 = match guard(|| DataMatrix::decode(&c.bits, c.width).is_ok()) {
        Ok(r) => r,
        Err(p) => return fail(format!("DataMatrix::decode panicked: {} ({} bits, width {})", p, c.bits.len(), c.width)),
    };
    let dims_match = c.width > 0 && c.bits.len() % c.width == 0 && SYMBOLS.iter().any(|s| s.cols == c.width && s.rows == c.bits.len() / c.width);
    Verdict::Pass(Pass::new(format!("bitmap/{}/{}{}", c.stratum, if r1 { "parsed" } else { "rejected" }, if r2 { "/decoded" } else { "" }), dims_match))
}

fn g_bitmap() -> BoxedStrategy<BitmapCase> {
    prop_oneof![
        // structurally valid symbol with a few surplus (or missing) pixels at the end
        2 => (any::<u16>(), any::<u64>(), any::<u16>(), any::<bool>()).prop_map(|(s, seed, k, surplus)| {
            let sym = &SYMBOLS[pick_sym(s)];
            let data = expand(seed, sym.data);
            let mut bits = place::render(sym, &codeword_for(sym, &data));
            let d = 1 + pick(k, sym.cols - 1);
            if surplus {
                bits.extend((0..d).map(|i| i % 2 == 0));
            } else {
                bits.truncate(bits.len() - d);
            }
            BitmapCase { width: sym.cols, bits, stratum: "valid-symbol-surplus-or-missing-pixels" }
        }),
        // arbitrary small arrays
        2 => (0usize..34, 0usize..34, any::<u64>(), any::<u8>()).prop_map(|(w, h, seed, dens)| {
            let bytes = expand(seed, w * h);
            BitmapCase { width: w, bits: bytes.iter().map(|b| *b < dens).collect(), stratum: "arbitrary" }
        }),
        // width 0 / non-dividing widths
        1 => (0usize..200, any::<u64>()).prop_map(|(n, seed)| BitmapCase { width: 0, bits: expand(seed, n).iter().map(|b| b & 1 == 1).collect(), stratum: "width0" }),
        1 => (1usize..150, 1usize..3000, any::<u64>()).prop_map(|(w, n, seed)| BitmapCase { width: w, bits: expand(seed, n).iter().map(|b| b & 1 == 1).collect(), stratum: "any-width" }),
        // real dimensions, random content
        2 => (any::<u16>(), any::<u64>(), any::<bool>()).prop_map(|(s, seed, transpose)| {
            let sym = &SYMBOLS[pick(s, 48)];
            let w = if transpose { sym.rows } else { sym.cols };
            BitmapCase { width: w, bits: expand(seed, sym.rows * sym.cols).iter().map(|b| b & 1 == 1).collect(), stratum: "real-dims-random" }
        }),
        // valid frame, random interior (RS decoding reached, almost always fails)
        3 => (any::<u16>(), any::<u64>()).prop_map(|(s, seed)| {
            let sym = &SYMBOLS[pick_sym(s)];
            let cw = expand(seed, sym.total());
            BitmapCase { width: sym.cols, bits: place::render(sym, &cw), stratum: "frame-random-interior" }
        }),
        // valid frame, RS-valid interior with weighted random data codewords (data decoding reached)
        4 => (any::<u16>(), vec(weighted_byte(), 0..40), any::<u64>(), vec((any::<u16>(), 1u8..=255), 0..4)).prop_map(|(s, head, seed, errs)| {
            let sym = &SYMBOLS[pick_sym(s)];
            let mut data = expand(seed, sym.data);
            for (i, b) in head.iter().enumerate().take(sym.data) {
                data[i] = *b;
            }
            let mut cw = codeword_for(sym, &data);
            for (p, x) in errs {
                let i = pick(p, cw.len());
                cw[i] ^= x;
            }
            BitmapCase { width: sym.cols, bits: place::render(sym, &cw), stratum: "frame-valid-rs" }
        }),
        // valid frame with a few flipped modules anywhere
        2 => (any::<u16>(), any::<u64>(), vec(any::<u16>(), 1..4)).prop_map(|(s, seed, flips)| {
            let sym = &SYMBOLS[pick(s, 48)];
            let data = expand(seed, sym.data);
            let cw = codeword_for(sym, &data);
            let mut bits = place::render(sym, &cw);
            for f in flips {
                let i = pick(f, bits.len());
                bits[i] = !bits[i];
            }
            BitmapCase { width: sym.cols, bits, stratum: "frame-flipped-modules" }
        }),
    ]
    .boxed()
}

fn run(ctx: &Arc<Ctx>) {
    // (a) data codeword streams
    ctx.run_enumerated("streams-len<=2", "stream", enum_short(), Some("all codeword streams of length 0, 1 and 2 through decode_data and decode_str"), check_stream);
    ctx.run_enumerated("streams-latch", "stream", enum_latch(), Some("all [latch, a, b] for the 7 latch / shift / ECI codewords and all a, b"), check_stream);
    ctx.run_enumerated("streams-eci", "stream", enum_eci(!ctx.quick()), if ctx.quick() { None } else { Some("all three-codeword ECI designators [241, 192..=207, b, c]") }, check_stream);
    ctx.run_enumerated("streams-charset", "stream", enum_charsets(), Some("256 byte values x 12 ECI numbers (incl. 3, 11, 13, 26, 27), carried by ASCII and by Base256"), check_stream);
    ctx.run_enumerated("streams-base256-length", "stream", enum_base256_lengths(), Some("announced Base256 lengths 1..1556 (both field forms) x actual remainder L-2..=L+1 x 0..2 leading ASCII codewords"), check_stream);
    // inputs far longer than any symbol (the entry points take any slice): 16-bit counters would wrap
    let mut huge = Vec::new();
    for n in [65_535usize, 65_536, 65_537, 70_000, 131_075] {
        huge.push(BytesCase { bytes: vec![66; n], stratum: "huge-ascii" });
        huge.push(BytesCase { bytes: (0..n).map(|i| 130 + (i % 100) as u8).collect(), stratum: "huge-digit-pairs" });
        let mut c40 = vec![230u8];
        c40.extend((0..n).map(|i| [89u8, 233][i % 2]));
        huge.push(BytesCase { bytes: c40, stratum: "huge-c40" });
        let mut edi = vec![240u8];
        edi.extend((0..n).map(|i| (i * 37 % 251) as u8 & 0xdf | 0x10));
        huge.push(BytesCase { bytes: edi, stratum: "huge-edifact" });
        let mut b = vec![231u8];
        b.extend((0..n).map(|i| (i * 131 % 256) as u8));
        huge.push(BytesCase { bytes: b, stratum: "huge-base256" });
    }
    ctx.run_enumerated("streams-huge", "stream", huge, None, check_stream);
    ctx.run_generated("streams", "stream", ctx.cases(200_000, 10_000_000), g_stream, check_stream);
    // (b) received words of exactly the symbol's length
    let mut singles = Vec::new();
    for i in 0..48 {
        let step = if ctx.quick() && SYMBOLS[i].total() > 400 { 7 } else { 1 };
        singles.extend(single_errors(i, &[0x01, 0xFF], step));
    }
    ctx.run_enumerated("rs-single", "rs", singles, None, check_rs);
    ctx.run_generated("rs-zero-prefix", "rs", ctx.cases(40_000, 3_000_000), g_zero_syndrome_prefix, check_rs);
    ctx.run_generated("rs-syndrome-pattern", "rs", ctx.cases(60_000, 4_000_000), g_syndrome_pattern, check_rs);
    ctx.run_generated("rs-random", "rs", ctx.cases(60_000, 5_000_000), g_random_word, check_rs);
    ctx.run_generated("rs-within", "rs", ctx.cases(20_000, 1_000_000), || g_error_pattern(Radius::Within), check_rs);
    ctx.run_generated("rs-beyond", "rs", ctx.cases(40_000, 3_000_000), || g_error_pattern(Radius::Beyond), check_rs);
    ctx.run_generated("rs-constrained-within", "rs", ctx.cases(40_000, 1_500_000), || g_constrained_values(Radius::Within), check_rs);
    ctx.run_generated("rs-constrained-beyond", "rs", ctx.cases(40_000, 1_500_000), || g_constrained_values(Radius::Beyond), check_rs);
    ctx.run_generated("rs-near-miss", "rs", ctx.cases(20_000, 1_000_000), g_near_miss, check_rs);
    // (c) pixel arrays
    let mut hugebm = Vec::new();
    for (w, n) in [(1usize, 70_000usize), (256, 65_536), (300, 90_000), (65_536, 131_072), (144, 144 * 456), (10, 2_660), (9, 9 * 266)] {
        hugebm.push(BitmapCase { width: w, bits: (0..n).map(|i| i % 3 == 0 || i % w == 0).collect(), stratum: "huge-bitmap" });
        hugebm.push(BitmapCase { width: w, bits: vec![true; n], stratum: "huge-bitmap-dark" });
    }
    ctx.run_enumerated("bitmaps-huge", "bitmap", hugebm, None, check_bitmap);
    ctx.run_generated("bitmaps", "bitmap", ctx.cases(60_000, 3_000_000), g_bitmap, check_bitmap);
}

fn replay(_ctx: &Ctx, kind: &str, case: &Value) -> Option<Verdict> {
    match kind {
        "stream" => Some(check_stream(&BytesCase::from_json(case)?)),
        "rs" => Some(check_rs(&RsCase::from_json(case)?)),
        "bitmap" => Some(check_bitmap(&BitmapCase::from_json(case)?)),
        _ => None,
    }
}
