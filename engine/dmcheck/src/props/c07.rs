//! C07 — module placement conforms to ISO/IEC 16022 Annex F and ISO/IEC 21471.

use super::Prop;
use crate::cases::*;
use crate::core::*;
use crate::gens::pick;
use datamatrix::placement::{Bit, MatrixMap};
use proptest::collection::vec;
use proptest::prelude::*;
use refimpl::place::{self, ModuleKind};
use refimpl::table::SYMBOLS;
use serde_json::{json, Value};
use std::sync::Arc;

pub static PROP: Prop = Prop {
    id: "C07",
    run,
    replay,
    rule: "tag run (exhaustive): for each of the 48 sizes a MatrixMap over a tagging Bit type is filled through traverse_mut with (codeword, bit) tags, rendered, and compared module by module with the table produced by the Annex F program (+ ISO 21471 row wrap); value run: codeword vectors (random, single-bit, single-codeword, complement pairs) rendered through new_with_codewords().bitmap() and compared with the reference rendering, codewords() must invert it; non-trivial = every case (each size exercises a different corner / wrap combination; vectors with at least one set bit); distinct by (size, vector)",
    assumptions: &["Annex F placement program transcribed literally; bit 1 of a codeword is its most significant bit"],
    extra: super::no_extra,
    fuzz_runs: 200000,
};

/// tagging bit: (codeword + 1, bit + 1), (0, 0) = untouched, (0, 1) = HIGH of the finder / padding
#[derive(Debug, Clone, Copy, PartialEq, Eq)]
struct Tag(u16, u8);

impl Bit for Tag {
    const LOW: Self = Tag(0, 0);
    const HIGH: Self = Tag(0, 1);
}

#[derive(Debug, Clone)]
pub struct SizeCase(pub usize);

impl Case for SizeCase {
    fn to_json(&self) -> Value {
        json!({"size": SYMBOLS[self.0].name})
    }
}

pub fn check_tags(c: &SizeCase) -> Verdict {
    let sym = &SYMBOLS[c.0];
    let size = CRATE_SYMBOLS[c.0];
    let lay = place::layout(sym);
    let res = guard(|| {
        let mut m = MatrixMap::<Tag>::new(size);
        let mut visited = Vec::new();
        m.traverse_mut(|cw, bits| {
            visited.push(cw);
            for (i, b) in bits.into_iter().enumerate() {
                *b = Tag(cw as u16 + 1, i as u8 + 1);
            }
        });
        m.write_padding();
        let bm = m.bitmap();
        (bm.bits().to_vec(), bm.width(), bm.height(), visited)
    });
    let (bits, w, h, visited) = match res {
        Ok(x) => x,
        Err(p) => return fail(format!("{}: traversal / rendering panicked: {}", sym.name, p)),
    };
    if w != sym.cols || h != sym.rows {
        return fail(format!("{}: rendered {}x{} (rows x cols), standard says {}x{}", sym.name, h, w, sym.rows, sym.cols));
    }
    // codewords visited exactly once each, in increasing order 0..n
    if visited.len() != sym.total() || visited.iter().enumerate().any(|(i, c)| *c != i) {
        return fail(format!("{}: traverse_mut visits {} codewords (expected {} in order)", sym.name, visited.len(), sym.total()));
    }
    for (i, k) in lay.iter().enumerate() {
        let (r, col) = (i / sym.cols, i % sym.cols);
        let got = bits[i];
        let ok = match k {
            ModuleKind::Solid => got == Tag::HIGH,
            ModuleKind::Clock(d) => got == if *d { Tag::HIGH } else { Tag::LOW },
            ModuleKind::Corner(d) => got == if *d { Tag::HIGH } else { Tag::LOW },
            ModuleKind::Data(cw, bit) => got == Tag(cw + 1, bit + 1),
        };
        if !ok {
            return fail(format!("{}: module (row {}, col {}) holds {:?}, the standard's placement says {:?}", sym.name, r, col, got, k));
        }
    }
    Verdict::Pass(Pass::new(format!("tags/{}x{}regions{}", sym.reg_v, sym.reg_h, if sym.has_corner_pattern() { "/corner" } else { "" }), true))
}

#[derive(Debug, Clone)]
pub struct CwCase {
    pub sym: usize,
    pub cw: Vec<u8>,
    pub stratum: &'static str,
}

impl Case for CwCase {
    fn to_json(&self) -> Value {
        json!({"size": SYMBOLS[self.sym].name, "codewords": hex(&self.cw)})
    }
}

impl CwCase {
    pub fn from_json(v: &Value) -> Option<Self> {
        Some(CwCase { sym: refimpl::table::index_of(v["size"].as_str()?)?, cw: unhex(v["codewords"].as_str()?)?, stratum: "replay" })
    }
}

pub fn check_values(c: &CwCase) -> Verdict {
    let sym = &SYMBOLS[c.sym];
    if c.cw.len() != sym.total() {
        return Verdict::EngineBug("codeword count mismatch".into());
    }
    let size = CRATE_SYMBOLS[c.sym];
    let res = guard(|| {
        let m = MatrixMap::new_with_codewords(&c.cw, size);
        let bm = m.bitmap();
        (bm.bits().to_vec(), bm.width(), m.codewords())
    });
    let (bits, w, back) = match res {
        Ok(x) => x,
        Err(p) => return fail(format!("{}: new_with_codewords / bitmap / codewords panicked: {}", sym.name, p)),
    };
    let expect = place::render(sym, &c.cw);
    if w != sym.cols || bits.len() != expect.len() {
        return fail(format!("{}: rendered width {} / {} modules, expected {} / {}", sym.name, w, bits.len(), sym.cols, expect.len()));
    }
    if let Some(i) = (0..bits.len()).find(|i| bits[*i] != expect[*i]) {
        return fail(format!("{}: module (row {}, col {}) is {} but the standard's placement of the codewords gives {}", sym.name, i / w, i % w, bits[i], expect[i]));
    }
    if back != c.cw {
        let i = (0..back.len().min(c.cw.len())).find(|i| back[*i] != c.cw[*i]);
        return fail(format!("{}: codewords() does not invert new_with_codewords() (first difference at {:?})", sym.name, i));
    }
    // reading the populated matrix through the traversal API gives the same codewords (MSB first), a
    // visitor that does not write leaves the matrix untouched, and one that flips a single module
    // changes exactly that bit
    let res = guard(|| {
        let mut m = MatrixMap::new_with_codewords(&c.cw, size);
        let mut seen_mut = vec![0u8; sym.total()];
        let mut order_mut: Vec<usize> = Vec::new();
        m.traverse_mut(|i, bits| {
            order_mut.push(i);
            let mut v = 0u8;
            for b in bits.iter() {
                v = v << 1 | (**b as u8);
            }
            if i < seen_mut.len() {
                seen_mut[i] = v;
            }
        });
        let after_read = m.codewords();
        let mut seen = vec![0u8; sym.total()];
        let mut order: Vec<usize> = Vec::new();
        m.traverse(|i, bits| {
            order.push(i);
            let mut v = 0u8;
            for b in bits.iter() {
                v = v << 1 | (*b as u8);
            }
            if i < seen.len() {
                seen[i] = v;
            }
        });
        if seen != seen_mut {
            seen_mut = vec![]; // reported below as a mismatch
        }
        // "traverse the symbol in codeword order": a visitor that streams codewords relies on it
        let in_order = |o: &Vec<usize>| o.len() == sym.total() && o.iter().enumerate().all(|(k, i)| k == *i);
        if !in_order(&order_mut) || !in_order(&order) {
            seen_mut = vec![0xEE]; // reported below
        }
        let target = (c.cw.iter().map(|x| *x as usize).sum::<usize>() + c.cw.len()) % sym.total();
        m.traverse_mut(|i, bits| {
            if i == target {
                *bits[7] = !*bits[7];
            }
        });
        (seen_mut, after_read, m.codewords(), target)
    });
    match res {
        Ok((seen_mut, after_read, after_flip, target)) => {
            if seen_mut == vec![0xEE] {
                return fail(format!("{}: traverse / traverse_mut do not call the visitor once per codeword in codeword order 0, 1, 2, ...", sym.name));
            }
            if seen_mut != c.cw {
                let i = (0..seen_mut.len().min(c.cw.len())).find(|i| seen_mut[*i] != c.cw[*i]);
                return fail(format!("{}: a reading visitor of traverse_mut sees different codewords than were written (first difference at {:?})", sym.name, i));
            }
            if after_read != c.cw {
                return fail(format!("{}: traverse_mut with a visitor that writes nothing changed the matrix", sym.name));
            }
            let mut want = c.cw.clone();
            want[target] ^= 1;
            if after_flip != want {
                return fail(format!("{}: flipping the last module of codeword {} through traverse_mut does not change exactly that bit", sym.name, target));
            }
        }
        Err(p) => return fail(format!("{}: traverse_mut on a populated matrix panicked: {}", sym.name, p)),
    }
    // a slice with surplus codewords behind the symbol's own (the documentation only forbids too short
    // ones) must place the symbol's codewords identically, fixed corner pattern included
    let mut longer = c.cw.clone();
    longer.extend_from_slice(&[0xA5, 0x5A, 0xFF]);
    if let Ok(b2) = guard(|| MatrixMap::new_with_codewords(&longer, size).bitmap().bits().to_vec()) {
        if b2 != bits {
            let i = (0..b2.len().min(bits.len())).find(|i| b2[*i] != bits[*i]);
            return fail(format!("{}: surplus codewords behind the symbol's own change the rendering (first difference at module {:?})", sym.name, i));
        }
    }
    Verdict::Pass(Pass::new(format!("values/{}", c.stratum), c.cw.iter().any(|x| *x != 0)))
}

fn g_cw() -> BoxedStrategy<CwCase> {
    (any::<u16>(), any::<u16>(), crate::gens::g_blob(2178), any::<u16>(), any::<u8>())
        .prop_map(|(s, k, bytes, p, b)| {
            let sym = pick(s, 48);
            let n = SYMBOLS[sym].total();
            match pick(k, 4) {
                0 => CwCase { sym, cw: bytes[..n].to_vec(), stratum: "random" },
                1 => {
                    let mut cw = vec![0u8; n];
                    cw[pick(p, n)] = 1 << (b % 8);
                    CwCase { sym, cw, stratum: "single-bit" }
                }
                2 => {
                    let mut cw = vec![0xffu8; n];
                    cw[pick(p, n)] = !(1 << (b % 8));
                    CwCase { sym, cw, stratum: "all-but-one-bit" }
                }
                _ => {
                    let mut cw = vec![0u8; n];
                    cw[pick(p, n)] = b | 1;
                    CwCase { sym, cw, stratum: "single-codeword" }
                }
            }
        })
        .boxed()
}

fn run(ctx: &Arc<Ctx>) {
    ctx.run_enumerated("tags", "size", (0..48).map(SizeCase).collect(), Some("all 48 sizes x every (codeword, bit) pair, compared module by module"), check_tags);
    // every single bit of every codeword of every size through the value path (exhaustive in thorough)
    let mut singles = Vec::new();
    for (i, s) in SYMBOLS.iter().enumerate() {
        let step = if ctx.quick() { 7 } else { 1 };
        for p in (0..s.total()).step_by(step) {
            for b in 0..8 {
                if ctx.quick() && (p + b) % 3 != 0 {
                    continue;
                }
                let mut cw = vec![0u8; s.total()];
                cw[p] = 1 << b;
                singles.push(CwCase { sym: i, cw, stratum: "enumerated-single-bit" });
            }
        }
    }
    let ex = if ctx.quick() { None } else { Some("every single set bit of every codeword of every size through new_with_codewords/bitmap/codewords") };
    ctx.run_enumerated("single-bits", "cw", singles, ex, check_values);
    ctx.run_generated("generated", "cw", ctx.cases(100_000, 1_000_000), g_cw, check_values);
}

fn replay(_ctx: &Ctx, kind: &str, case: &Value) -> Option<Verdict> {
    match kind {
        "size" => Some(check_tags(&SizeCase(refimpl::table::index_of(case["size"].as_str()?)?))),
        "cw" => Some(check_values(&CwCase::from_json(case)?)),
        _ => None,
    }
}
