//! C10 — the smallest symbol that can hold the data is chosen.

use super::Prop;
use crate::cases::*;
use crate::core::*;
use crate::gens::*;
use datamatrix::EncodationType;
use proptest::prelude::*;
use refimpl::codec::{ascii_greedy, min_len, ref_decode, run_script, Mode, Step};
use serde_json::{json, Map, Value};
use std::sync::Arc;

pub static PROP: Prop = Prop {
    id: "C10",
    run,
    replay,
    rule: "cases = (input, symbol list, mode subset), macros off, no FNC1/ECI. Oracle in three claims: (1) the returned symbol is never larger than the first listed symbol that holds plain ASCII (greedy digit pairs) or plain Base256 encodation when that mode is enabled; (2) a refusal is wrong if the reference minimal-length search R3 finds an encoding for some listed symbol; (3) the returned capacity is wrong if R3 finds an encoding for a smaller listed capacity. For (2) and (3) a violation needs a witness stream built by the reference encoder R2 that the reference decoder R1 AND the crate's own decode_data both decode to the input, using only enabled modes. Fixed corpus (independent of the seed): all strings of length <= 5 over the alphabet {1, A, a, *, space, !, 0xE9} x 3 configurations, plus a fixed-seed class-run sample; seeded exploration on top. non-trivial = R3's optimum uses >= 1 non-ASCII segment OR the unpadded length is within 2 codewords of a listed capacity; distinct by (input, configuration)",
    assumptions: &[
        "R3 only knows uncontroversial standard forms, so it may miss encodings the crate finds (counted as crate_better); it never causes a violation without a verified witness",
        "with ASCII disabled R3 uses no ASCII steps and no ASCII-tail end forms (conservative)",
        "open finding D13 (planner search not exhaustive): corpus inputs are listed individually in known_findings.json; in seeded exploration a sub-optimal result is attributed to it only if the planner priced the plan it selected, the encoder realised it and the list lookup was right (hook H1)",
    ],
    extra,
    fuzz_runs: 60000,
};

static COUNTS: std::sync::Mutex<std::collections::BTreeMap<&'static str, u64>> = std::sync::Mutex::new(std::collections::BTreeMap::new());
fn bump(k: &'static str) {
    *COUNTS.lock().unwrap().entry(k).or_insert(0) += 1;
}

static DUMP: std::sync::OnceLock<std::sync::Mutex<Vec<Value>>> = std::sync::OnceLock::new();

pub const FAMILY_SIG: &str = "D13-family:planner-search-not-exhaustive";

#[derive(Debug, Clone, Copy, PartialEq, Eq)]
pub enum Strictness {
    /// fixed corpus: every sub-optimal input must be listed by exact signature
    Corpus,
    /// seeded exploration: the mechanical root-cause test may attribute a case to the open finding
    Explore,
}

/// R3 option: the end-of-data forms of C40 / Text / X12 / EDIFACT that hand the last character(s) to ASCII
/// (rules c and d of 5.2.5.2, the X12 and EDIFACT analogues) are counted for mode sets without ASCII too.
/// They belong to the latched mode's own end-of-data rule, the crate writes them in such configurations
/// (C13's statement allows exactly that) and its planner prices them; without the option R3 could not
/// reproduce 40 % of the symbols the crate reaches there and C10 had no opinion on those inputs.
fn fallback_bit() -> u8 {
    0x40
}

fn caps_of(mask: u64) -> Vec<usize> {
    let mut v = mask_sorted_caps(mask);
    v.dedup();
    v
}

fn script_modes(script: &[Step]) -> Vec<Mode> {
    let mut v = Vec::new();
    for s in script {
        let m = match s {
            Step::A1 | Step::A2 | Step::Fnc1 => Mode::Ascii,
            Step::Seg(m, _) | Step::FinalC40Exact(m, _) | Step::FinalC40Pad(m, _) | Step::FinalC40UnlatchAscii(m, _) | Step::FinalC40ImplicitAscii(m, _) => *m,
            Step::FinalC40ImplicitPair(m, _) => *m,
            Step::FinalX12Exact(_) | Step::FinalX12ImplicitAscii(_) | Step::FinalX12ImplicitPair(_) => Mode::X12,
            Step::FinalEdifactExact(_) | Step::FinalEdifactAscii(..) => Mode::Edifact,
            Step::FinalBase256ToEnd(_) => Mode::Base256,
        };
        if !v.contains(&m) {
            v.push(m);
        }
    }
    v
}

/// A verified witness: an encoding of `data` into `cap` codewords using only `modes`.
struct Witness {
    cap: usize,
    len: usize,
    stream: Vec<u8>,
    script: Vec<Step>,
}

enum WitnessResult {
    Found(Witness),
    None,
    /// R1 disagrees with R2: engine defect
    EngineBug(String),
    /// R1 accepts, the crate's decoder does not: not C10's business (C04), counted
    CrateDecoderRejects,
}

/// `data` is the complete message, `body` what the mode encoders see (macro envelope removed) and
/// `prefix` the header codewords (macro / FNC1) in front of it
fn find_witness(data: &[u8], body: &[u8], prefix: &[u8], caps: &[usize], modes: u8) -> WitnessResult {
    let mut crate_rejects = false;
    for cap in caps {
        let Some((len, script)) = min_len(body, *cap, prefix.len(), modes | fallback_bit()) else { continue };
        let stream = run_script(body, &script, prefix, *cap);
        let d = match ref_decode(&stream) {
            Ok(d) => d,
            Err(e) => return WitnessResult::EngineBug(format!("R1 rejects R2's witness: {} (script {:?})", e.0, script)),
        };
        if d.message() != data || stream.len() != *cap {
            return WitnessResult::EngineBug(format!("R1 decodes R2's witness differently (script {:?})", script));
        }
        // only enabled modes
        if d.latches.iter().any(|l| modes & l.bit() == 0) {
            return WitnessResult::EngineBug("witness latches into a disabled mode".into());
        }
        if modes & 1 == 0 && prefix.is_empty() && d.ascii_char_positions().iter().any(|p| *p + 4 < data.len()) {
            return WitnessResult::EngineBug("witness uses ASCII characters before the last four although ASCII is disabled".into());
        }
        match guard(|| datamatrix::data::decode_data(&stream)) {
            Ok(Ok(out)) if out == data => return WitnessResult::Found(Witness { cap: *cap, len, stream, script }),
            _ => {
                crate_rejects = true;
                continue;
            }
        }
    }
    if crate_rejects {
        WitnessResult::CrateDecoderRejects
    } else {
        WitnessResult::None
    }
}


/// The witness script as mode paths for hook H3 (`verif::price_path`): `(characters left, mode)`
/// pairs.  Forms that end with an implicit ASCII tail are offered in two readings (the latched
/// mode runs to the end of the data / an explicit switch to ASCII before the tail); the planner's
/// price of the witness is the cheaper reading it can follow.
fn witness_paths(script: &[Step], n: usize) -> Vec<Vec<(usize, EncodationType)>> {
    let mut a: Vec<(usize, EncodationType)> = Vec::new();
    let mut tail_switch: Option<(usize, EncodationType)> = None;
    let mut pos = 0usize;
    let mut cur = Mode::Ascii;
    for st in script {
        let (m, len, tail) = match st {
            Step::A1 => (Mode::Ascii, 1, 0),
            Step::A2 => (Mode::Ascii, 2, 0),
            Step::Fnc1 => (Mode::Ascii, 1, 0),
            Step::Seg(m, l) => (*m, *l, 0),
            Step::FinalC40Exact(m, l) | Step::FinalC40Pad(m, l) => (*m, *l, 0),
            Step::FinalC40UnlatchAscii(m, l) | Step::FinalC40ImplicitAscii(m, l) => (*m, *l, 1),
            Step::FinalX12Exact(l) => (Mode::X12, *l, 0),
            Step::FinalX12ImplicitAscii(l) => (Mode::X12, *l, 1),
            Step::FinalC40ImplicitPair(m, l) => (*m, *l, 2),
            Step::FinalX12ImplicitPair(l) => (Mode::X12, *l, 2),
            Step::FinalEdifactExact(l) => (Mode::Edifact, *l, 0),
            Step::FinalEdifactAscii(l, t) => (Mode::Edifact, *l + *t, *t),
            Step::FinalBase256ToEnd(l) => (Mode::Base256, *l, 0),
        };
        if m != cur {
            a.push((n - pos, crate_mode(m)));
        }
        cur = m;
        if tail > 0 {
            tail_switch = Some((n - (pos + len - tail), EncodationType::Ascii));
        }
        pos += len;
    }
    match tail_switch {
        Some(t) => {
            let mut b = a.clone();
            b.push(t);
            vec![a, b]
        }
        None => vec![a],
    }
}

/// the planner's own price (whole codewords) of the witness, by hook H3
fn planner_price_of_witness(c: &EncCase, body: &[u8], pre: usize, script: &[Step]) -> Option<usize> {
    let list = mask_to_list(c.list);
    witness_paths(script, body.len())
        .iter()
        .filter_map(|p| guard(|| datamatrix::verif::price_path_after(body, pre, &list, p)).ok().flatten())
        .min()
}

/// plain ASCII / plain Base256 bounds (claim 1): smallest listed capacity that holds them
fn plain_bound(data: &[u8], pre: usize, caps: &[usize], modes: u8) -> Option<(usize, &'static str)> {
    let mut best: Option<(usize, &'static str)> = None;
    if modes & 1 != 0 {
        let l = pre + ascii_greedy(data);
        if let Some(c) = caps.iter().find(|c| **c >= l) {
            best = Some((*c, "plain ASCII"));
        }
    }
    if modes & 32 != 0 && !data.is_empty() && data.len() <= 1555 {
        let n = data.len();
        let c = caps.iter().find(|c| (**c == pre + n + 2) || (**c >= pre + n + if n < 250 { 2 } else { 3 }));
        if let Some(c) = c {
            if best.map_or(true, |b| *c < b.0) {
                best = Some((*c, "plain Base256"));
            }
        }
    }
    best
}

pub fn check_with(c: &EncCase, strict: Strictness, ctx: &Ctx) -> Verdict {
    if c.list == 0 || c.modes == 0 || c.eci.is_some() {
        return Verdict::Pass(Pass::new("out-of-domain", false));
    }
    // header codewords (macro / FNC1) are a constant offset for the reference search
    let (prefix, body) = c.expected_prefix();
    let pre = prefix.len();
    let caps = caps_of(c.list);
    datamatrix::verif::reset_plan_stats();
    let enc = guard(|| c.encode());
    let stats = datamatrix::verif::last_plan_stats();
    let (crate_cap, dm) = match enc {
        Ok(Ok(dm)) => (Some(sym_of(dm.size).data), Some(dm)),
        Ok(Err(_)) => (None, None),
        Err(_) => return Verdict::Pass(Pass::new("encoder-panic(C11)", false).count("encoder_panics", 1)),
    };
    // candidates: listed capacities smaller than the one the crate used (all if it refused)
    let candidates: Vec<usize> = caps.iter().copied().filter(|x| crate_cap.map_or(true, |cc| *x < cc)).collect();
    let desc = || format!("input {:?} ({} bytes), modes {}, list {}", show(&c.data), c.data.len(), mode_names(c.modes), mask_names(c.list));
    let bound = plain_bound(body, pre, &caps, c.modes);
    let witness = find_witness(&c.data, body, &prefix, &candidates, c.modes);
    let better = match witness {
        WitnessResult::EngineBug(e) => return Verdict::EngineBug(e),
        WitnessResult::Found(w) => Some(w),
        WitnessResult::CrateDecoderRejects => {
            return Verdict::Pass(Pass::new("witness-rejected-by-crate-decoder(C04)", false).count("witness_rejected_by_crate_decoder", 1));
        }
        WitnessResult::None => None,
    };
    if let Some(w) = better {
        // the crate is worse than a verified standard-conformant encoding
        // what does the planner's own cost model say about the witness? (hook H3)
        let priced = planner_price_of_witness(c, body, pre, &w.script);
        let priced = priced.map(|p| p + pre);
        let priced_fits = priced.map_or(false, |p| p <= w.cap);
        // further legal encodings that fit the same capacity: the reference optimum under each single
        // latched mode (with and without ASCII beside it).  If the planner can follow one of them but
        // prices it beyond the capacity it demonstrably fits, its cost model is wrong for that form -
        // even if it prices the overall optimum correctly (the search may have lost that one, D13).
        let mut overpriced_alt: Option<(usize, Vec<Step>, usize)> = None;
        for m in [2u8, 4, 8, 16, 32] {
            if c.modes & m == 0 {
                continue;
            }
            for with_ascii in [true, false] {
                let sub = if with_ascii { m | (c.modes & 1) } else { m };
                if with_ascii && c.modes & 1 == 0 {
                    continue;
                }
                if let Some((alen, ascript)) = min_len(body, w.cap, pre, sub | fallback_bit()) {
                    if let Some(p) = planner_price_of_witness(c, body, pre, &ascript) {
                        if p + pre > w.cap && overpriced_alt.is_none() {
                            overpriced_alt = Some((alen, ascript, p + pre));
                        }
                    }
                }
            }
        }
        if overpriced_alt.is_some() {
            bump("suboptimal_with_an_overpriced_single_mode_alternative");
        }
        bump(match priced {
            None => "witness_unpriceable_by_planner",
            Some(_) if priced_fits => "witness_priced_fits(search lost it)",
            Some(_) => "witness_overpriced_by_planner",
        });
        if !priced_fits && std::env::var("VERIF_C10_TRACE").is_ok() {
            eprintln!("TRACE price={:?} wcap={} wlen={} crate_cap={:?} script={:?} paths={:?} data={:?} modes={} list={}", priced, w.cap, w.len, crate_cap, w.script, witness_paths(&w.script, c.data.len()), show(&c.data), mode_names(c.modes), mask_names(c.list));
        }
        let sig = c.signature();
        if ctx.is_known(&sig).is_some() {
            return Verdict::Known(sig);
        }
        let reason = match crate_cap {
            Some(cc) => {
                let plain = match bound {
                    Some((bc, what)) if cc > bc => format!(" (claim 1: {} fits capacity {})", what, bc),
                    _ => String::new(),
                };
                format!(
                    "encoder chose a symbol with {} data codewords ({:?}) but a conformant encoding with {} codewords fits the listed capacity {}{}: witness script {:?}, witness stream {:?}; crate stream {:?} ({})",
                    cc,
                    dm.as_ref().map(|d| d.size),
                    w.len,
                    w.cap,
                    plain,
                    w.script,
                    w.stream,
                    dm.as_ref().map(|d| d.data_codewords().to_vec()),
                    desc()
                )
            }
            None => format!(
                "encoder refuses the data (TooMuchOrIllegalData) but a conformant encoding with {} codewords fits the listed capacity {}: witness script {:?}, witness stream {:?} ({})",
                w.len,
                w.cap,
                w.script,
                w.stream,
                desc()
            ),
        };
        if strict == Strictness::Explore && ctx.is_known(FAMILY_SIG).is_some() {
            // the property's explicit bound (plain ASCII / plain Base256 of the whole message) is never
            // subject to the open finding: none of its listed instances exceeds it
            if let Some((bc, what)) = bound {
                if crate_cap.map_or(true, |cc| cc > bc) {
                    return fail(format!("{} [not attributable to the open planner finding: {} of the whole message fits capacity {}, the bound the property states explicitly]", reason, what, bc));
                }
            }
            // mechanical root-cause test for the open finding "planner search is not exhaustive"
            let attributed = match (&dm, crate_cap) {
                (Some(_), Some(cc)) => {
                    match stats.chosen_cost {
                        Some(cost) if stats.calls == 1 => {
                            // the planner priced the plan it selected at `predicted` codewords and the encoder
                            // did not need a larger symbol than the first listed one that holds that many
                            let predicted = stats.written + cost;
                            caps.iter().find(|x| **x >= predicted).map_or(true, |first| cc <= *first)
                        }
                        _ => false,
                    }
                }
                // refusal: attributed only if the planner itself found no plan that fits the list
                (None, None) => match stats.chosen_cost {
                    None => stats.calls == 1,
                    Some(cost) => stats.calls == 1 && caps.last().map_or(true, |m| stats.written + cost > *m),
                },
                _ => false,
            };
            // ... and the planner's own cost model does not contradict the witness: asked to price the
            // witness's mode path (hook H3) it either cannot follow it (the path lies outside its search
            // space: a switch inside an "unbeatable" run) or prices it as fitting the smaller symbol, i.e.
            // the search merely lost it.  A witness the planner can follow but prices as NOT fitting is a
            // defect of the cost model (a mode or end-of-data form priced too high), not of the search.
            let model_agrees = priced.map_or(true, |p| p <= w.cap) && overpriced_alt.is_none();
            if attributed && model_agrees {
                return Verdict::Known(FAMILY_SIG.to_string());
            }
            if attributed {
                if let Some((alen, ascript, ap)) = &overpriced_alt {
                    return fail(format!("{} [not attributable to the open planner finding: the planner's own cost model prices the legal encoding {:?} (real length {}, fits capacity {}) at {} codewords]", reason, ascript, alen, w.cap, ap));
                }
                return fail(format!("{} [not attributable to the open planner finding: the planner's own cost model prices the witness path at {} codewords, more than its real length {} and than the capacity {} it fits]", reason, priced.unwrap_or(0), w.len, w.cap));
            }
            return fail(format!("{} [not attributable to the open planner finding: planner stats {:?}]", reason, stats));
        }
        if let Some(dump) = DUMP.get() {
            // developer mode (VERIF_C10_DUMP=file): collect every sub-optimal case instead of failing
            dump.lock().unwrap().push(json!({"case": c.to_json(), "signature": c.signature(), "crate_capacity": crate_cap, "witness_capacity": w.cap, "witness_len": w.len, "planner_price_of_witness": priced, "witness_script": format!("{:?}", w.script), "reason": reason, "stage": format!("{:?}", strict)}));
            return Verdict::Pass(Pass::new("dumped-suboptimal", false).count("dumped", 1));
        }
        return fail(reason);
    }
    // claim 1 alone (R3 found nothing better, e.g. because no smaller listed capacity exists)
    if let (Some(cc), Some((bc, what))) = (crate_cap, bound) {
        if cc > bc {
            return Verdict::EngineBug(format!("{} fits capacity {} but R3 found no witness below {} ({})", what, bc, cc, desc()));
        }
    }
    if crate_cap.is_none() {
        if let Some((bc, what)) = bound {
            return Verdict::EngineBug(format!("{} fits capacity {} but R3 found no witness although the crate refused ({})", what, bc, desc()));
        }
    }
    // classification
    let (nontrivial, cls) = match (crate_cap, &dm) {
        (Some(cc), Some(dm)) => {
            let own = min_len(body, cc, pre, c.modes | fallback_bit());
            let uses_non_ascii = own.as_ref().map_or(false, |(_, s)| script_modes(s).iter().any(|m| *m != Mode::Ascii));
            let unpadded = ref_decode(dm.data_codewords()).map(|d| d.unpadded_len()).unwrap_or(cc);
            let near = caps.iter().any(|x| *x >= unpadded && *x - unpadded <= 2);
            let rel = match &own {
                Some((l, s)) if *l > unpadded => {
                    if std::env::var("VERIF_C10_TRACE_SHORTER").is_ok() {
                        eprintln!("SHORTER crate={} ref={} cap={} modes={} data={:?} crate_stream={:?} ref_script={:?}", unpadded, l, cc, mode_names(c.modes), show(&c.data), dm.data_codewords(), s);
                    }
                    "crate-shorter-than-reference"
                }
                Some((l, _)) if *l == unpadded => "equal-length",
                Some(_) => "same-symbol-longer-stream",
                None => {
                    if std::env::var("VERIF_C10_TRACE_SHORTER").is_ok() {
                        eprintln!("INCOMPLETE crate={} cap={} modes={} data={:?} crate_stream={:?}", unpadded, cc, mode_names(c.modes), show(&c.data), dm.data_codewords());
                    }
                    "reference-incomplete"
                }
            };
            (uses_non_ascii || near, format!("{}/{}/{}", crate::obs::modes_class(c.modes), crate::obs::list_class(c.list), rel))
        }
        _ => (false, format!("{}/{}/refused-no-witness", crate::obs::modes_class(c.modes), crate::obs::list_class(c.list))),
    };
    Verdict::Pass(Pass::new(cls, nontrivial).count("refused_without_witness", crate_cap.is_none() as u64))
}

// ---------------------------------------------------------------------------------------------
// fixed corpus
// ---------------------------------------------------------------------------------------------

const ALPHABET: [u8; 7] = [b'1', b'A', b'a', b'*', b' ', b'!', 0xE9];

pub fn corpus_configs() -> Vec<(u64, u8)> {
    // (list, modes): default list / all modes; all 48 sizes / all modes; default list / no Base256 and no ASCII... kept small and fixed
    vec![(default_mask(), 63), (ALL_MASK, 63), (default_mask(), 0b011111)]
}

fn corpus_strings(max_len: usize) -> Vec<Vec<u8>> {
    let mut out = vec![vec![]];
    let mut layer: Vec<Vec<u8>> = vec![vec![]];
    for _ in 0..max_len {
        let mut next = Vec::new();
        for s in &layer {
            for a in ALPHABET {
                let mut t = s.clone();
                t.push(a);
                next.push(t);
            }
        }
        out.extend(next.iter().cloned());
        layer = next;
    }
    out
}

/// Frozen corpus generator: does not depend on VERIF_SEED nor on the proptest strategies (which
/// may evolve); a plain splitmix64 stream drives class runs and end-of-data shaped strings.
/// Changing this function changes the corpus and therefore requires regenerating the exact
/// known-finding list (tools/c10_findings.py).
fn corpus_sample(n: usize) -> Vec<Vec<u8>> {
    let mut state: u64 = 0xC10C_0A05_2026_1003;
    let mut next = move || {
        state = splitmix(state);
        state
    };
    let class_char = |class: u64, r: u64| -> u8 {
        let r = (r >> 8) as u8;
        match class % 9 {
            0 => b'0' + r % 10,
            1 => b'A' + r % 26,
            2 => b'a' + r % 26,
            3 => b" \r*>"[(r % 4) as usize],
            4 => b' ',
            5 => 32 + r % 63,
            6 => b"!\"#$%&'()*+,-./:;<=>?@[\\]^_"[(r % 27) as usize],
            7 => r % 32,
            _ => 128 + r % 128,
        }
    };
    let mut out = Vec::with_capacity(n);
    for _ in 0..n {
        let mut v = Vec::new();
        if next() % 3 != 0 {
            // class runs
            let runs = 1 + next() % 7;
            for _ in 0..runs {
                let class = next();
                let len = 1 + next() % 9;
                for _ in 0..len {
                    v.push(class_char(class, next()));
                }
            }
        } else {
            // end-of-data shaped: prefix, body of 3k+d / 4k+d characters of one class, tail
            let plen = next() % 4;
            let pclass = next();
            for _ in 0..plen {
                v.push(class_char(pclass, next()));
            }
            let bclass = [1u64, 2, 3, 0, 5, 8][(next() % 6) as usize];
            let k = 1 + next() % 8;
            let d = next() % 4;
            let blen = if next() % 2 == 0 { 3 * k + d } else { 4 * k + d };
            for _ in 0..blen {
                v.push(class_char(bclass, next()));
            }
            let tl = next() % 5;
            let tclass = [0u64, 0, 1, 2, 8, 4, 6][(next() % 7) as usize];
            for _ in 0..tl {
                v.push(class_char(tclass, next()));
            }
        }
        v.truncate(64);
        out.push(v);
    }
    out
}

/// Second frozen part of the corpus (added after the seeded mutants C10-g/h/i): structured strings on
/// which several modes compete - three segments of different character classes with lengths 2..8, and
/// one-class bodies followed by a byte from the edges of the modes' value tables.  Like `corpus_sample`
/// it must never change without regenerating the exact known-finding list.
fn corpus_grid() -> Vec<Vec<u8>> {
    let classes: [&[u8]; 7] = [b"ABCDEFGHIJKL", b"123456789012", b"abcdefghijkl", b"*>* >*> *>*>", b".,-/:;<=?@!.", &[0xE9, 0xFA, 0x80, 0xFF, 0xE9, 0xFA, 0x80, 0xFF, 0xE9, 0xFA, 0x80, 0xFF], b"            "];
    let lens = [2usize, 4, 5, 8];
    let mut out = Vec::new();
    for a in 0..7 {
        for b in 0..7 {
            for c in 0..7 {
                if a == b || b == c {
                    continue;
                }
                // keep the corpus moderate: the three classes in all orders, lengths from a fixed sub-grid
                for (i, la) in lens.iter().enumerate() {
                    for (j, lb) in lens.iter().enumerate() {
                        let lc = lens[(i + 2 * j + a + c) % 4];
                        let mut v = classes[a][..*la].to_vec();
                        v.extend_from_slice(&classes[b][..*lb]);
                        v.extend_from_slice(&classes[c][..lc]);
                        out.push(v);
                    }
                }
            }
        }
    }
    let edge = [0x00u8, 0x1f, 0x20, 0x2f, 0x30, 0x39, 0x3a, 0x40, 0x41, 0x5a, 0x5b, 0x5e, 0x5f, 0x60, 0x61, 0x7a, 0x7b, 0x7e, 0x7f, 0x80, 0x81, 0x9f, 0xa0, 0xaf, 0xc0, 0xdf, 0xfe, 0xff];
    for a in 0..6 {
        for n in 3..=12usize {
            for e in edge {
                let mut v = classes[a][..n].to_vec();
                v.push(e);
                out.push(v);
            }
        }
    }
    out
}

/// Third frozen part (added after the seeded mutants C10-k/l): whole-message forms at real capacities.
/// (a) n = cap-3 and cap-2 bytes of ASCII-only characters with 0, 2, 3, 4 bytes >= 128 spread over them, or
/// all >= 128: plain ASCII against one Base256 field with a one- or two-byte length or the "to the end of
/// the symbol" length, on both sides of the 250 byte limit; (b) one-class strings whose natural mode
/// fills a symbol exactly, and the neighbouring lengths.  Never change without regenerating the list.
fn corpus_long() -> Vec<Vec<u8>> {
    let mut out = Vec::new();
    for cap in [204usize, 280, 368, 456] {
        for n in [cap - 3, cap - 2] {
            for h in [0usize, 2, 3, 4, usize::MAX] {
                let mut v: Vec<u8> = (0..n).map(|i| b"{|}~"[i % 4]).collect();
                if h == usize::MAX {
                    for (i, x) in v.iter_mut().enumerate() {
                        *x = 0x80 + (i * 37 % 128) as u8;
                    }
                } else {
                    for (j, at) in [0, n - 1, n / 2, n / 4].iter().take(h).enumerate() {
                        v[*at] = [0xE9u8, 0xFF, 0x80, 0xC1][j];
                    }
                }
                out.push(v);
            }
        }
    }
    // (c) p digit pairs, a run of 249 / 250 / 251 bytes >= 128, a short tail: leaving a Base256 field at the
    // two-byte length limit, at totals around the capacities 280 and 368
    for p in (18usize..=32).chain(106..=120) {
        if p > 32 && p % 3 != 0 {
            continue;
        }
        for field in [249usize, 250, 251] {
            for tail in [&b"12"[..], b"A", b"1", b"ab", b"1234"] {
                let mut v: Vec<u8> = (0..2 * p).map(|i| b'0' + ((i * 7 + p) % 10) as u8).collect();
                v.extend((0..field).map(|i| 0x80 + ((i * 37 + field) % 128) as u8));
                v.extend_from_slice(tail);
                out.push(v);
            }
        }
    }
    let classes: [(&[u8], usize, usize); 5] = [(b"0123456789", 2, 1), (b"ABCDEFGHIJKLMNOPQRSTUVWXYZ", 3, 2), (b"abcdefghijklmnopqrstuvwxyz", 3, 2), (b"AB1*>C 2\rD", 3, 2), (b".,-/:;<=?@!#$%&()+", 4, 3)];
    for cap in [22usize, 62, 144, 280] {
        for (alphabet, chars, cws) in classes {
            // characters that fill `cap` (digits) or `cap - 1` (latched modes) codewords
            let room = if chars == 2 { cap } else { cap - 1 };
            let n0 = room / cws * chars;
            for n in n0.saturating_sub(2)..=n0 + 2 {
                out.push((0..n).map(|i| alphabet[(i * 7 + n) % alphabet.len()]).collect());
            }
        }
    }
    out
}

fn extra(ctx: &Ctx) -> Map<String, Value> {
    let mut m = Map::new();
    let hits = ctx.known_hits.lock().unwrap();
    let exact: u64 = hits.iter().filter(|(k, _)| k.as_str() != FAMILY_SIG).map(|(_, v)| *v).sum();
    m.insert("known_finding_D13_exact_corpus_hits".into(), json!(exact));
    m.insert("known_finding_D13_family_attributions".into(), json!(hits.get(FAMILY_SIG).copied().unwrap_or(0)));
    m.insert("known_findings_listed".into(), json!(ctx.known_open.len()));
    m.insert("suboptimal_cases_by_planner_price_of_witness".into(), json!(*COUNTS.lock().unwrap()));
    m
}

fn run(ctx: &Arc<Ctx>) {
    let dump_path = std::env::var("VERIF_C10_DUMP").ok();
    if dump_path.is_some() {
        let _ = DUMP.set(std::sync::Mutex::new(Vec::new()));
    }
    run_stages(ctx);
    if let (Some(p), Some(d)) = (dump_path, DUMP.get()) {
        let v = d.lock().unwrap();
        std::fs::write(&p, serde_json::to_string_pretty(&*v).unwrap()).expect("write dump");
        eprintln!("dumped {} sub-optimal cases to {}", v.len(), p);
    }
}

fn run_stages(ctx: &Arc<Ctx>) {
    // (0) every listed open finding is re-executed (so that the KNOWN-FINDING line reflects the current tree)
    for f in ctx.known_open.iter() {
        if let (Some(kind), Some(case)) = (&f.kind, &f.case) {
            if kind == "enc" {
                if let Some(c) = EncCase::from_json(case) {
                    let v = guard(|| check_with(&c, Strictness::Corpus, ctx));
                    match v {
                        Ok(Verdict::Known(sig)) => {
                            *ctx.known_hits.lock().unwrap().entry(sig).or_insert(0) += 0;
                        }
                        Ok(Verdict::Pass(_)) => ctx.note(format!("listed open finding no longer reproduces: {}", f.what)),
                        _ => {}
                    }
                }
            }
        }
    }
    // (a) fixed corpus, strict
    let mut corpus = Vec::new();
    let strings = corpus_strings(5);
    // the corpus is the same in both tiers: every sub-optimal input in it is listed by exact signature
    let sample = corpus_sample(10_000);
    let grid = corpus_grid();
    let long = corpus_long();
    for (list, modes) in corpus_configs() {
        for s in strings.iter().chain(sample.iter()).chain(grid.iter()).chain(long.iter()) {
            corpus.push(EncCase { data: s.clone(), list, modes, macros: false, fnc1: false, eci: None, stratum: "corpus" });
        }
    }
    ctx.run_enumerated("corpus", "enc", corpus, Some("fixed corpus: all strings of length <= 5 over a 7 letter alphabet + fixed-seed sample of 10 000 + 5 700 three-segment / boundary-byte strings + 440 whole-message strings at real capacities, 3 configurations"), |c| check_with(c, Strictness::Corpus, ctx));
    // (b) seeded exploration
    let o = EncGenOpts { long_weight: 0, macro_weight: 0, allow_fnc1: false, allow_macros_flag: false, short_only: true, ..Default::default() };
    ctx.run_generated("explore", "enc-explore", ctx.cases(200_000, 3_000_000), || g_enc_case(o).prop_map(|mut c| { c.macros = false; c }), |c| check_with(c, Strictness::Explore, ctx));
    // (c) the same with header codewords in front: macro envelopes (compacted and look-alikes), FNC1 start
    let o = EncGenOpts { long_weight: 0, macro_weight: 6, allow_fnc1: true, allow_macros_flag: true, short_only: true, ..Default::default() };
    // two families aimed at whole-message decisions of one codeword
    ctx.run_generated("explore-shift-tail", "enc-explore", ctx.cases(60_000, 1_000_000), || {
        (g_shift_tail(), g_modes(), g_list(), any::<u8>()).prop_map(|(data, modes, list, fp)| {
            let data = if fp % 2 == 0 { fit_pad(&data, modes, fp / 2) } else { data };
            let list = match list { ListSpec::Default => default_mask(), ListSpec::All => ALL_MASK, ListSpec::Mask(m) => m, ListSpec::Fit(k) => resolve_fit(&data, modes, false, false, k) };
            EncCase { data, list, modes, macros: false, fnc1: false, eci: None, stratum: "shift-tail" }
        })
    }, |c| check_with(c, Strictness::Explore, ctx));
    ctx.run_generated("explore-capacity-shaped", "enc-explore", ctx.cases(20_000, 400_000), || {
        (g_capacity_shaped(), g_modes(), any::<u8>()).prop_map(|(data, modes, l)| {
            let list = match l % 4 { 0 => default_mask(), 1 | 2 => ALL_MASK, _ => resolve_fit(&data, modes, false, false, l / 4 % 6) };
            EncCase { data, list, modes, macros: false, fnc1: false, eci: None, stratum: "capacity-shaped" }
        })
    }, |c| check_with(c, Strictness::Explore, ctx));
    // Base256 fields at their limits (249/250 bytes, exact fits of every size, the longest field of 1555 bytes)
    ctx.run_enumerated("b256-limit", "enc-explore", super::c18::b256_limit_cases(), None, |c| check_with(c, Strictness::Explore, ctx));
    ctx.run_generated("explore-headers", "enc-explore", ctx.cases(60_000, 1_000_000), || g_enc_case(o), |c| check_with(c, Strictness::Explore, ctx));
}

fn replay(ctx: &Ctx, kind: &str, case: &Value) -> Option<Verdict> {
    match kind {
        "enc" => Some(check_with(&EncCase::from_json(case)?, Strictness::Corpus, ctx)),
        "enc-explore" => Some(check_with(&EncCase::from_json(case)?, Strictness::Explore, ctx)),
        _ => None,
    }
}
