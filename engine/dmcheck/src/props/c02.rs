//! C02 — encoder output is a conformant ISO/IEC 16022 data codeword stream.

use super::Prop;
use crate::cases::*;
use crate::core::*;
use crate::gens::*;
use crate::obs::*;
use refimpl::codec::ref_decode;
use serde_json::Value;
use std::sync::Arc;

pub static PROP: Prop = Prop {
    id: "C02",
    run,
    replay,
    rule: "cases = (input, list, mode subset, macro, FNC1, ECI none or 0..=999999) through DataMatrixBuilder::encode_eci and data::encode_data; oracle = size is a member of the list, codeword counts equal ISO/IEC 16022 Table 7 / ISO 21471, and the independent reference decoder (strict on codeword ranges, latches only in ASCII context, Base256 length fields, exact consumption, first pad 129 then 253-state pads reached in ASCII mode) decodes the capacity-long stream to the input with the requested macro / FNC1 / ECI headers; non-trivial = stream has >= 1 latch OR ends in an end-of-data form (no pad and last segment not plain ASCII, or implicit ASCII tail) OR has >= 2 pad codewords; distinct by (input, configuration)",
    assumptions: &["reference decoder R1 transcribed from ISO/IEC 16022 5.2; it accepts a dangling shift before an unlatch / symbol end and a lone unlatch in the last position (practice differs), everything else is strict"],
    extra: super::no_extra,
    fuzz_runs: 200000,
};

pub fn check(c: &EncCase) -> Verdict {
    if c.list == 0 {
        return Verdict::Pass(Pass::new("empty-list", false));
    }
    let dm = match encode_obs(c) {
        EncOutcome::Ok(dm) => dm,
        EncOutcome::Refused(_) => return Verdict::Pass(Pass::new(format!("{}/refused", c.stratum), false).count("refused", 1)),
        EncOutcome::Panic(_) => return Verdict::Pass(Pass::new(format!("{}/encoder-panic(C11)", c.stratum), false).count("encoder_panics", 1)),
    };
    let idx = sym_index(dm.size);
    let sym = sym_of(dm.size);
    if c.list >> idx & 1 == 0 {
        return fail(format!("returned size {} is not a member of the supplied list {}", sym.name, mask_names(c.list)));
    }
    let cw = dm.data_codewords();
    if cw.len() != sym.data {
        return fail(format!("{}: {} data codewords returned, the symbol has {}", sym.name, cw.len(), sym.data));
    }
    if dm.codewords().len() != sym.data + sym.ec || &dm.codewords()[..sym.data] != cw {
        return fail(format!("{}: {} codewords in total, expected {} data + {} error codewords with the data as prefix", sym.name, dm.codewords().len(), sym.data, sym.ec));
    }
    let d = match ref_decode(cw) {
        Ok(d) => d,
        Err(e) => return fail(format!("reference decoder rejects the stream: {} (input {:?}, codewords {:?})", e.0, show(&c.data), cw)),
    };
    if d.message() != c.data {
        return fail(format!("reference decoder reads {:?} but the input was {:?} (codewords {:?})", show(&d.message()), show(&c.data), cw));
    }
    // headers as requested
    let (prefix, _body) = c.expected_prefix();
    if cw.len() < prefix.len() || cw[..prefix.len()] != prefix[..] {
        return fail(format!("stream must start with the header codewords {:?} (macro/FNC1/ECI as requested), got {:?} (input {:?})", prefix, &cw[..cw.len().min(prefix.len() + 2)], show(&c.data)));
    }
    if d.fnc1_first != c.fnc1 {
        return fail(format!("FNC1 first position: stream {} / requested {}", d.fnc1_first, c.fnc1));
    }
    let want_eci: Vec<(usize, u32)> = c.eci.iter().map(|e| (0usize, *e)).collect();
    if d.ecis != want_eci {
        return fail(format!("ECI designators in stream {:?}, requested {:?}", d.ecis, want_eci));
    }
    // the lower level API must produce the same stream
    if !c.fnc1 {
        let list = mask_to_list(c.list);
        match guard(|| datamatrix::data::encode_data(&c.data, &list, c.eci, modes_to_flags(c.modes), c.macros)) {
            Ok(Ok((v, s))) => {
                if v != cw || s != dm.size {
                    return fail(format!("data::encode_data returns a different stream / size ({:?}, {} codewords) than the builder ({:?})", s, v.len(), dm.size));
                }
            }
            Ok(Err(e)) => return fail(format!("data::encode_data refuses ({:?}) what the builder encodes", e)),
            Err(_) => {} // C11
        }
    }
    let n = cw.len();
    let pads = n - d.pad_start;
    let ending = ending_class(&d, n);
    let nontrivial = !d.latches.is_empty() || pads >= 2 || matches!(ending, "implicit-ascii-tail" | "latched-to-end" | "b256-to-end");
    Verdict::Pass(
        Pass::new(format!("{}/{}/{}/{}", c.stratum, modes_class(c.modes), stream_class(&d), ending), nontrivial)
            .count("end_of_data_forms", matches!(ending, "implicit-ascii-tail" | "latched-to-end" | "b256-to-end") as u64),
    )
}

fn run(ctx: &Arc<Ctx>) {
    let mut fixed = Vec::new();
    for s in [&b"Hello, World!"[..], b"", b"A", b"123456", b"AIMAIMAIM", b"[)>\x1e05\x1d01\x1e\x04", b"\xab\xe4\xf6\xfc\xe9\xbb"] {
        for eci in [None, Some(0), Some(26), Some(127), Some(16383), Some(999_999)] {
            for fnc1 in [false, true] {
                fixed.push(EncCase { data: s.to_vec(), list: default_mask(), modes: 63, macros: true, fnc1, eci, stratum: "fixed" });
            }
        }
    }
    ctx.run_enumerated("fixed", "enc", fixed, None, check);
    let o = EncGenOpts { long_weight: if ctx.quick() { 1 } else { 2 }, eci: true, ..Default::default() };
    ctx.run_generated("generated", "enc", ctx.cases(300_000, 3_000_000), || g_enc_case(o), check);
}

fn replay(_ctx: &Ctx, kind: &str, case: &Value) -> Option<Verdict> {
    match kind {
        "enc" => Some(check(&EncCase::from_json(case)?)),
        _ => None,
    }
}
