//! C08 — finder/alignment rendering and strict bitmap parsing are mutual inverses.

use super::c05::BitmapCase;
use super::c07::CwCase;
use super::Prop;
use crate::cases::*;
use crate::core::*;
use crate::gens::*;
use datamatrix::placement::{BitmapConversionError, MatrixMap};
use proptest::collection::vec;
use proptest::prelude::*;
use refimpl::place::{self, ModuleKind};
use refimpl::table::SYMBOLS;
use serde_json::{json, Value};
use std::sync::Arc;

pub static PROP: Prop = Prop {
    id: "C08",
    run,
    replay,
    rule: "forward: 48 sizes x generated contents rendered by MatrixMap::bitmap() compared bit for bit with the reference renderer (solid L, clock tracks, alignment bars per region grid of the standard), try_from_bits must return the same size and content; converse: pixel arrays = every single-module deviation of a valid rendering of every size (exhaustive), 2-3 simultaneous deviations, arbitrary arrays, width 0, non-dividing lengths, dimensions matching no symbol incl. transposed rectangles; oracle: if try_from_bits accepts, re-rendering the parsed content reproduces the array exactly, otherwise the documented error kinds ZeroWidth / DataSize / SymbolSize for the three shape errors; non-trivial = converse cases that differ from a valid rendering in a non-data module, forward cases on multi-region sizes; distinct by array",
    assumptions: &["finder / alignment geometry R5/R6 from ISO/IEC 16022 5.? symbol structure: each data region has a solid left and bottom bar, alternating top and right tracks (dark at the corner adjoining the solid bar)"],
    extra: super::no_extra,
    fuzz_runs: 200000,
};

pub fn check_forward(c: &CwCase) -> Verdict {
    let sym = &SYMBOLS[c.sym];
    let size = CRATE_SYMBOLS[c.sym];
    let r = guard(|| {
        let m = MatrixMap::new_with_codewords(&c.cw, size);
        let bm = m.bitmap();
        let parsed = MatrixMap::<bool>::try_from_bits(bm.bits(), bm.width());
        (bm.bits().to_vec(), bm.width(), bm.height(), parsed.map(|(m2, s2)| (m2.codewords(), s2, m2 == m)))
    });
    let (bits, w, h, parsed) = match r {
        Ok(x) => x,
        Err(p) => return fail(format!("{}: render / parse panicked: {}", sym.name, p)),
    };
    if w != sym.cols || h != sym.rows {
        return fail(format!("{}: rendering has {} rows x {} cols", sym.name, h, w));
    }
    let expect = place::render(sym, &c.cw);
    if let Some(i) = (0..bits.len()).find(|i| bits[*i] != expect[*i]) {
        let lay = place::layout(sym);
        return fail(format!("{}: rendered module (row {}, col {}) is {}, the standard's symbol structure requires {} there ({:?})", sym.name, i / w, i % w, bits[i], expect[i], lay[i]));
    }
    match parsed {
        Ok((cw2, s2, same)) => {
            if s2 != size {
                return fail(format!("{}: parsing the rendering detects {:?}", sym.name, s2));
            }
            if cw2 != c.cw || !same {
                return fail(format!("{}: parsing the rendering returns different content", sym.name));
            }
        }
        Err(e) => return fail(format!("{}: parsing the crate's own rendering fails: {:?}", sym.name, e)),
    }
    let multi = sym.reg_v * sym.reg_h > 1;
    Verdict::Pass(Pass::new(format!("forward/{}x{}regions", sym.reg_v, sym.reg_h), multi))
}

/// what kind of array is it relative to the catalogue
fn shape_expectation(c: &BitmapCase) -> Option<BitmapConversionError> {
    if c.width == 0 {
        return Some(BitmapConversionError::ZeroWidth);
    }
    if c.bits.len() % c.width != 0 {
        return Some(BitmapConversionError::DataSize);
    }
    let h = c.bits.len() / c.width;
    if !SYMBOLS.iter().any(|s| s.cols == c.width && s.rows == h) {
        return Some(BitmapConversionError::SymbolSize);
    }
    None
}

pub fn check_converse(c: &BitmapCase) -> Verdict {
    let r = guard(|| {
        MatrixMap::<bool>::try_from_bits(&c.bits, c.width).map(|(m, s)| {
            let cw = m.codewords();
            let again = MatrixMap::new_with_codewords(&cw, s).bitmap();
            (s, again.bits().to_vec(), again.width(), m.bitmap().bits().to_vec())
        })
    });
    let r = match r {
        Ok(r) => r,
        Err(p) => return fail(format!("try_from_bits / re-rendering panicked: {} ({} bits, width {})", p, c.bits.len(), c.width)),
    };
    let shape = shape_expectation(c);
    match (&shape, &r) {
        (Some(e), Err(g)) => {
            if e != g {
                return fail(format!("array of {} bits with width {} must be rejected with {:?}, got {:?}", c.bits.len(), c.width, e, g));
            }
            return Verdict::Pass(Pass::new(format!("{}/rejected-{:?}", c.stratum, e), false));
        }
        (Some(e), Ok(_)) => return fail(format!("array of {} bits with width {} is accepted, must be rejected with {:?}", c.bits.len(), c.width, e)),
        _ => {}
    }
    let sym = SYMBOLS.iter().find(|s| s.cols == c.width && s.rows * s.cols == c.bits.len()).unwrap();
    // does it differ from "a valid rendering" in a non-data module?
    let lay = place::layout(sym);
    let nondata_wrong = lay.iter().enumerate().filter(|(i, k)| match k {
        ModuleKind::Solid => !c.bits[*i],
        ModuleKind::Clock(d) | ModuleKind::Corner(d) => c.bits[*i] != *d,
        ModuleKind::Data(..) => false,
    }).count();
    match r {
        Ok((s, again, w2, direct)) => {
            if sym_of(s).name != sym.name {
                return fail(format!("{}x{} array parsed as {:?}", sym.rows, sym.cols, s));
            }
            if w2 != c.width || again != c.bits {
                let i = (0..again.len().min(c.bits.len())).find(|i| again[*i] != c.bits[*i]);
                return fail(format!("{}: try_from_bits accepts an array that re-rendering its content does not reproduce (first difference at {:?} = row {:?}, col {:?}; {} non-data modules deviate from a valid symbol)", sym.name, i, i.map(|i| i / c.width), i.map(|i| i % c.width), nondata_wrong));
            }
            if direct != c.bits {
                return fail(format!("{}: bitmap() of the parsed matrix differs from the parsed array", sym.name));
            }
            if nondata_wrong > 0 {
                return Verdict::EngineBug("re-rendering equals the array although a finder module deviates".into());
            }
            Verdict::Pass(Pass::new(format!("{}/accepted", c.stratum), false))
        }
        Err(e) => {
            // rejecting is always allowed by the converse direction; but a *valid* rendering must parse (forward direction)
            if nondata_wrong == 0 {
                return fail(format!("{}: array with a completely valid finder / alignment / corner pattern is rejected with {:?}", sym.name, e));
            }
            Verdict::Pass(Pass::new(format!("{}/rejected-{:?}", c.stratum, e), true).count("damaged_finder_rejected", 1))
        }
    }
}

#[derive(Debug, Clone)]
pub struct DeviationBlock {
    pub sym: usize,
    pub row: usize,
}

impl Case for DeviationBlock {
    fn to_json(&self) -> Value {
        json!({"size": SYMBOLS[self.sym].name, "row": self.row})
    }
}

/// every single-module deviation in one row of a valid rendering
fn check_deviation_row(c: &DeviationBlock) -> Verdict {
    let sym = &SYMBOLS[c.sym];
    let cw: Vec<u8> = (0..sym.total()).map(|i| (i as u32 * 113 + c.row as u32 * 7 + 29) as u8).collect();
    let base = place::render(sym, &cw);
    let mut nondata = 0;
    for col in 0..sym.cols {
        let mut bits = base.clone();
        let i = c.row * sym.cols + col;
        bits[i] = !bits[i];
        let case = BitmapCase { width: sym.cols, bits, stratum: "single-deviation" };
        match check_converse(&case) {
            Verdict::Pass(p) => {
                if p.nontrivial {
                    nondata += 1;
                }
            }
            Verdict::Fail(r) => return fail(format!("deviation at (row {}, col {}): {}", c.row, col, r)),
            other => return other,
        }
    }
    Verdict::Pass(Pass::new("single-deviation-row", nondata > 0).count("single_deviations", sym.cols as u64).count("non_data_deviations_rejected", nondata))
}

/// structured deviations: a whole row or column of a valid rendering rewritten at once (phase of a
/// clock track inverted, a solid bar replaced, a line shifted) - deviations that no enumeration of
/// single modules and no handful of random flips reaches
#[derive(Debug, Clone)]
pub struct LineDeviation {
    pub sym: usize,
    pub column: bool,
    pub index: usize,
}

impl Case for LineDeviation {
    fn to_json(&self) -> Value {
        json!({"size": SYMBOLS[self.sym].name, "line": if self.column { "column" } else { "row" }, "index": self.index})
    }
}

pub fn line_variant(base: &[bool], lay: &[ModuleKind], w: usize, h: usize, column: bool, index: usize, variant: usize) -> Vec<bool> {
    let n = if column { h } else { w };
    let at = |k: usize| if column { k * w + index } else { index * w + k };
    let mut bits = base.to_vec();
    for k in 0..n {
        let i = at(k);
        let nondata = !matches!(lay[i], ModuleKind::Data(..));
        bits[i] = match variant {
            0 => !base[i],                          // whole line inverted
            1 => if nondata { !base[i] } else { base[i] }, // only the finder / clock / alignment modules of the line inverted
            2 => true,                              // solid dark
            3 => false,                             // all light
            4 => base[at((k + 1) % n)],             // shifted by one module
            5 => k % 2 == 0,                        // alternating, starting dark
            6 => k % 2 == 1,                        // alternating, starting light
            // a copy of a neighbouring line (one or two lines before / after)
            v => {
                let lines = if column { w } else { h };
                let d: isize = [-2, -1, 1, 2][(v - 7) % 4];
                let j = index as isize + d;
                if j < 0 || j >= lines as isize {
                    base[i]
                } else if column {
                    base[k * w + j as usize]
                } else {
                    base[j as usize * w + k]
                }
            }
        };
    }
    bits
}

fn check_line_deviation(c: &LineDeviation) -> Verdict {
    let sym = &SYMBOLS[c.sym];
    let cw: Vec<u8> = (0..sym.total()).map(|i| (i as u32 * 151 + c.index as u32 * 11 + 3) as u8).collect();
    let base = place::render(sym, &cw);
    let lay = place::layout(sym);
    let mut rejected = 0;
    for variant in 0..11 {
        let bits = line_variant(&base, &lay, sym.cols, sym.rows, c.column, c.index, variant);
        let case = BitmapCase { width: sym.cols, bits, stratum: "line-deviation" };
        match check_converse(&case) {
            Verdict::Pass(p) => {
                if p.nontrivial {
                    rejected += 1;
                }
            }
            Verdict::Fail(r) => return fail(format!("{} {} rewritten (variant {}): {}", if c.column { "column" } else { "row" }, c.index, variant, r)),
            other => return other,
        }
    }
    Verdict::Pass(Pass::new("line-deviation", rejected > 0).count("line_deviations", 11).count("line_deviations_rejected", rejected))
}

/// all pairs of non-data modules of one interior row or column of a valid rendering flipped together
/// (two deviations that could compensate each other in a relational check of the row's two ends)
#[derive(Debug, Clone)]
pub struct PairDeviation {
    pub sym: usize,
    pub column: bool,
    pub index: usize,
}

impl Case for PairDeviation {
    fn to_json(&self) -> Value {
        json!({"size": SYMBOLS[self.sym].name, "line": if self.column { "column" } else { "row" }, "index": self.index})
    }
}

fn check_pair_deviation(c: &PairDeviation) -> Verdict {
    let sym = &SYMBOLS[c.sym];
    let cw: Vec<u8> = (0..sym.total()).map(|i| (i as u32 * 197 + c.index as u32 * 13 + 5) as u8).collect();
    let base = place::render(sym, &cw);
    let lay = place::layout(sym);
    let n = if c.column { sym.rows } else { sym.cols };
    let at = |k: usize| if c.column { k * sym.cols + c.index } else { c.index * sym.cols + k };
    let nondata: Vec<usize> = (0..n).map(at).filter(|i| !matches!(lay[*i], ModuleKind::Data(..))).collect();
    if nondata.len() > 16 {
        // border rows / columns and alignment lines consist of finder modules only: pairs of their
        // two ends, of neighbours and of a sample are taken instead of all n^2 / 2
        let mut count = 0u64;
        let m = nondata.len();
        let pairs: Vec<(usize, usize)> = (0..m - 1).map(|i| (i, i + 1)).chain([(0, m - 1), (0, 1), (m - 2, m - 1), (1, m - 2)]).collect();
        for (a, b) in pairs {
            let mut bits = base.clone();
            bits[nondata[a]] = !bits[nondata[a]];
            bits[nondata[b]] = !bits[nondata[b]];
            match check_converse(&BitmapCase { width: sym.cols, bits, stratum: "pair-deviation" }) {
                Verdict::Pass(_) => count += 1,
                Verdict::Fail(r) => return fail(format!("modules {} and {} flipped together: {}", nondata[a], nondata[b], r)),
                other => return other,
            }
        }
        return Verdict::Pass(Pass::new("pair-deviation/finder-line", true).count("pair_deviations", count));
    }
    let mut count = 0u64;
    for a in 0..nondata.len() {
        for b in a + 1..nondata.len() {
            let mut bits = base.clone();
            bits[nondata[a]] = !bits[nondata[a]];
            bits[nondata[b]] = !bits[nondata[b]];
            match check_converse(&BitmapCase { width: sym.cols, bits, stratum: "pair-deviation" }) {
                Verdict::Pass(_) => count += 1,
                Verdict::Fail(r) => return fail(format!("modules (row {}, col {}) and (row {}, col {}) flipped together: {}", nondata[a] / sym.cols, nondata[a] % sym.cols, nondata[b] / sym.cols, nondata[b] % sym.cols, r)),
                other => return other,
            }
        }
    }
    Verdict::Pass(Pass::new("pair-deviation", count > 0).count("pair_deviations", count))
}

/// whole finder structures of a valid rendering repainted at once: the complete solid "L" (of the symbol
/// or of one band of regions) light, all clock modules inverted, all finder modules inverted, all finder
/// modules dark / light
#[derive(Debug, Clone)]
pub struct Repaint(pub usize);

impl Case for Repaint {
    fn to_json(&self) -> Value {
        json!({"size": SYMBOLS[self.0].name})
    }
}

fn check_repaints(c: &Repaint) -> Verdict {
    let sym = &SYMBOLS[c.0];
    let cw: Vec<u8> = (0..sym.total()).map(|i| (i as u32 * 91 + 17) as u8).collect();
    let base = place::render(sym, &cw);
    let lay = place::layout(sym);
    let (w, h) = (sym.cols, sym.rows);
    let is_solid = |i: usize| matches!(lay[i], ModuleKind::Solid);
    let is_clock = |i: usize| matches!(lay[i], ModuleKind::Clock(_));
    let nondata = |i: usize| !matches!(lay[i], ModuleKind::Data(..));
    let mut variants: Vec<(String, Vec<bool>)> = Vec::new();
    let paint = |name: &str, f: &dyn Fn(usize, bool) -> bool| -> (String, Vec<bool>) { (name.to_string(), (0..w * h).map(|i| f(i, base[i])).collect()) };
    variants.push(paint("all solid modules light", &|i, b| if is_solid(i) { false } else { b }));
    // the same, but the rows that carry a horizontal clock track stay as they are (their first module
    // belongs to the clock track as well as to the solid column)
    let clock_row = |r: usize| (0..w).all(|x| !matches!(lay[r * w + x], ModuleKind::Data(..))) && (0..w).any(|x| matches!(lay[r * w + x], ModuleKind::Clock(_)));
    variants.push(paint("all solid modules outside the clock rows light", &|i, b| if is_solid(i) && !clock_row(i / w) { false } else { b }));
    variants.push(paint("all solid modules outside the clock rows light, clock rows inverted", &|i, b| if clock_row(i / w) { !b } else if is_solid(i) { false } else { b }));
    variants.push(paint("all clock modules inverted", &|i, b| if is_clock(i) { !b } else { b }));
    variants.push(paint("all finder modules inverted", &|i, b| if nondata(i) { !b } else { b }));
    variants.push(paint("all finder modules dark", &|i, b| if nondata(i) { true } else { b }));
    variants.push(paint("all finder modules light", &|i, b| if nondata(i) { false } else { b }));
    variants.push(paint("solid and clock swapped", &|i, b| if is_solid(i) { (i / w + i % w) % 2 == 0 } else if is_clock(i) { true } else { b }));
    // bands of regions: rows between two rows that consist of finder modules only
    let full_row = |r: usize| (0..w).all(|x| nondata(r * w + x));
    let full_col = |x: usize| (0..h).all(|r| nondata(r * w + x));
    let mut start = 0;
    for r in 0..h {
        if full_row(r) && (0..w).all(|x| is_solid(r * w + x) || x == w - 1 || full_col(x)) && r > start {
            let (a, b) = (start, r);
            variants.push(paint(&format!("solid modules of the band of rows {}..={} light", a, b), &|i, bit| if is_solid(i) && (a..=b).contains(&(i / w)) { false } else { bit }));
            variants.push(paint(&format!("solid modules of the band of rows {}..={} (outside its clock row) light", a, b), &|i, bit| if is_solid(i) && (a..=b).contains(&(i / w)) && !clock_row(i / w) { false } else { bit }));
            variants.push(paint(&format!("finder modules of the band of rows {}..={} inverted", a, b), &|i, bit| if nondata(i) && (a..=b).contains(&(i / w)) { !bit } else { bit }));
            start = r + 1;
        }
    }
    let mut cstart = 0;
    for x in 0..w {
        if full_col(x) && x > cstart && (x + 1 == w || full_col(x + 1) || true) && (0..h).any(|r| is_clock(r * w + x)) {
            let (a, b) = (cstart, x);
            variants.push(paint(&format!("clock modules of the band of columns {}..={} inverted", a, b), &|i, bit| if is_clock(i) && (a..=b).contains(&(i % w)) { !bit } else { bit }));
            variants.push(paint(&format!("solid modules of the band of columns {}..={} light", a, b), &|i, bit| if is_solid(i) && (a..=b).contains(&(i % w)) { false } else { bit }));
            cstart = x + 1;
        }
    }
    let n = variants.len() as u64;
    for (name, bits) in variants {
        if bits == base {
            continue;
        }
        match check_converse(&BitmapCase { width: w, bits, stratum: "finder-repaint" }) {
            Verdict::Pass(_) => {}
            Verdict::Fail(r) => return fail(format!("{}: {}", name, r)),
            other => return other,
        }
    }
    Verdict::Pass(Pass::new("finder-repaint", true).count("finder_repaints", n))
}

fn g_forward() -> BoxedStrategy<CwCase> {
    (any::<u16>(), any::<u64>(), any::<u16>())
        .prop_map(|(s, seed, k)| {
            let sym = pick(s, 48);
            let n = SYMBOLS[sym].total();
            let cw = match pick(k, 4) {
                0 => vec![0u8; n],
                1 => vec![0xff; n],
                _ => expand(seed, n),
            };
            CwCase { sym, cw, stratum: "forward" }
        })
        .boxed()
}

fn g_converse() -> BoxedStrategy<BitmapCase> {
    prop_oneof![
        // valid rendering with 1-3 deviations, biased to non-data modules
        5 => (any::<u16>(), any::<u64>(), vec((any::<u16>(), any::<bool>()), 1..=3)).prop_map(|(s, seed, devs)| {
            let sym = &SYMBOLS[pick(s, 48)];
            let cw = expand(seed, sym.total());
            let mut bits = place::render(sym, &cw);
            let lay = place::layout(sym);
            let nondata: Vec<usize> = (0..lay.len()).filter(|i| !matches!(lay[*i], ModuleKind::Data(..))).collect();
            for (p, prefer_finder) in devs {
                let i = if prefer_finder { nondata[pick(p, nondata.len())] } else { pick(p, bits.len()) };
                bits[i] = !bits[i];
            }
            BitmapCase { width: sym.cols, bits, stratum: "multi-deviation" }
        }),
        // valid rendering with one or two whole lines rewritten (plus possibly a module flip)
        3 => (any::<u16>(), any::<u64>(), vec((any::<bool>(), any::<u16>(), 0usize..11), 1..=2), any::<u16>(), any::<bool>()).prop_map(|(s, seed, lines, p, flip)| {
            let sym = &SYMBOLS[pick(s, 48)];
            let cw = expand(seed, sym.total());
            let mut bits = place::render(sym, &cw);
            let lay = place::layout(sym);
            for (column, idx, variant) in lines {
                let n = if column { sym.cols } else { sym.rows };
                bits = line_variant(&bits, &lay, sym.cols, sym.rows, column, pick(idx, n), variant);
            }
            if flip {
                let i = pick(p, bits.len());
                bits[i] = !bits[i];
            }
            BitmapCase { width: sym.cols, bits, stratum: "line-deviation" }
        }),
        // real dimensions, random content / random content with a correct outer frame
        2 => (any::<u16>(), any::<u64>(), any::<bool>()).prop_map(|(s, seed, frame)| {
            let sym = &SYMBOLS[pick(s, 48)];
            let mut bits: Vec<bool> = expand(seed, sym.rows * sym.cols).iter().map(|b| b & 1 == 1).collect();
            if frame {
                for r in 0..sym.rows {
                    bits[r * sym.cols] = true;
                    bits[r * sym.cols + sym.cols - 1] = r % 2 == 1;
                }
                for c in 0..sym.cols {
                    bits[(sym.rows - 1) * sym.cols + c] = true;
                    bits[c] = c % 2 == 0;
                }
            }
            BitmapCase { width: sym.cols, bits, stratum: if frame { "real-dims-outer-frame" } else { "real-dims-random" } }
        }),
        // transposed rectangles and near-miss dimensions
        2 => (any::<u16>(), any::<u64>(), 0usize..4).prop_map(|(s, seed, k)| {
            let sym = &SYMBOLS[pick(s, 48)];
            let (w, h) = match k { 0 => (sym.rows, sym.cols), 1 => (sym.cols + 2, sym.rows), 2 => (sym.cols, sym.rows + 2), _ => (sym.cols - 2, sym.rows - 2) };
            BitmapCase { width: w, bits: expand(seed, w * h).iter().map(|b| b & 1 == 1).collect(), stratum: "near-miss-dims" }
        }),
        // width zero and non-dividing widths
        1 => (0usize..300, any::<u64>()).prop_map(|(n, seed)| BitmapCase { width: 0, bits: expand(seed, n).iter().map(|b| b & 1 == 1).collect(), stratum: "width0" }),
        2 => (1usize..160, 0usize..3000, any::<u64>()).prop_map(|(w, n, seed)| BitmapCase { width: w, bits: expand(seed, n).iter().map(|b| b & 1 == 1).collect(), stratum: "any-width" }),
        // valid renderings (must be accepted)
        1 => (any::<u16>(), any::<u64>()).prop_map(|(s, seed)| {
            let sym = &SYMBOLS[pick(s, 48)];
            BitmapCase { width: sym.cols, bits: place::render(sym, &expand(seed, sym.total())), stratum: "valid" }
        }),
    ]
    .boxed()
}

fn run(ctx: &Arc<Ctx>) {
    ctx.run_generated("forward", "cw", ctx.cases(40_000, 800_000), g_forward, check_forward);
    let mut rows = Vec::new();
    for (i, s) in SYMBOLS.iter().enumerate() {
        for r in 0..s.rows {
            rows.push(DeviationBlock { sym: i, row: r });
        }
    }
    ctx.run_enumerated("single-deviations", "devrow", rows, Some("every single-module deviation of a valid rendering of every size (sum of rows x cols arrays)"), check_deviation_row);
    let mut lines = Vec::new();
    for (i, s) in SYMBOLS.iter().enumerate() {
        for r in 0..s.rows {
            lines.push(LineDeviation { sym: i, column: false, index: r });
        }
        for c in 0..s.cols {
            lines.push(LineDeviation { sym: i, column: true, index: c });
        }
    }
    ctx.run_enumerated("line-deviations", "devline", lines, Some("every row and every column of a valid rendering of every size rewritten in 7 ways (inverted, non-data modules inverted, dark, light, shifted, alternating in both phases)"), check_line_deviation);
    ctx.run_enumerated("finder-repaints", "repaint", (0..48).map(Repaint).collect(), Some("per size: the complete solid L / all clock modules / all finder modules repainted, and the same per band of regions"), check_repaints);
    let mut pairs = Vec::new();
    for (i, s) in SYMBOLS.iter().enumerate() {
        for r in 0..s.rows {
            pairs.push(PairDeviation { sym: i, column: false, index: r });
        }
        for c in 0..s.cols {
            pairs.push(PairDeviation { sym: i, column: true, index: c });
        }
    }
    ctx.run_enumerated("pair-deviations", "devpair", pairs, Some("every pair of finder / clock / alignment / corner modules within one row or one column of a valid rendering of every size flipped together (neighbours and end pairs on the lines that consist of such modules only)"), check_pair_deviation);
    // shapes: every width 0..=150 with lengths around multiples of the width (incl. the empty array)
    let mut shapes = Vec::new();
    for w in 0..=150usize {
        for len in [0usize, 1, w.saturating_sub(1), w, w + 1, 2 * w, 8 * w, 10 * w, 10 * w + 1, 12 * w, 144 * w] {
            shapes.push(BitmapCase { width: w, bits: (0..len).map(|i| (i * 7 + w) % 3 == 0).collect(), stratum: "shape-edge" });
        }
    }
    // dimensions that collide with a catalogue size under width * 2^k + height style keys
    for sym in SYMBOLS.iter() {
        for (w, h) in [(sym.cols - 1, sym.rows + 256), (sym.cols - 2, sym.rows + 512), (sym.cols, sym.rows + 256), (sym.cols + 1, sym.rows.wrapping_sub(256)), (sym.cols - 1, sym.rows + 128), (sym.cols - 1, sym.rows + 65_536 / 256), (sym.rows, sym.cols)] {
            if w >= 1 && h >= 1 && h < 2_000 {
                let base = place::render(sym, &vec![0x5a; sym.total()]);
                // a valid rendering stretched / cropped to the colliding shape
                let bits: Vec<bool> = (0..w * h).map(|i| base[((i / w) % sym.rows) * sym.cols + (i % w) % sym.cols]).collect();
                shapes.push(BitmapCase { width: w, bits, stratum: "shape-collision" });
            }
        }
    }
    // a valid symbol inside a frame of light (or dark) modules, one or two modules wide: a scan that
    // includes the quiet zone has dimensions no symbol has
    for sym in SYMBOLS.iter() {
        let base = place::render(sym, &vec![0xa7; sym.total()]);
        for (f, dark) in [(1usize, false), (2, false), (1, true)] {
            let (w, h) = (sym.cols + 2 * f, sym.rows + 2 * f);
            let bits: Vec<bool> = (0..w * h)
                .map(|i| {
                    let (r, c) = (i / w, i % w);
                    if r < f || c < f || r >= h - f || c >= w - f {
                        dark
                    } else {
                        base[(r - f) * sym.cols + (c - f)]
                    }
                })
                .collect();
            shapes.push(BitmapCase { width: w, bits, stratum: "framed-symbol" });
        }
    }
    ctx.run_enumerated("shape-edges", "bitmap", shapes, Some("widths 0..=150 x lengths {0, 1, w-1, w, w+1, 2w, 8w, 10w, 10w+1, 12w, 144w}: error classification"), check_converse);
    ctx.run_generated("converse", "bitmap", ctx.cases(300_000, 5_000_000), g_converse, check_converse);
}

fn replay(_ctx: &Ctx, kind: &str, case: &Value) -> Option<Verdict> {
    match kind {
        "cw" => Some(check_forward(&CwCase::from_json(case)?)),
        "bitmap" => Some(check_converse(&BitmapCase::from_json(case)?)),
        "repaint" => Some(check_repaints(&Repaint(refimpl::table::index_of(case["size"].as_str()?)?))),
        "devpair" => Some(check_pair_deviation(&PairDeviation { sym: refimpl::table::index_of(case["size"].as_str()?)?, column: case["line"] == "column", index: case["index"].as_u64()? as usize })),
        "devline" => Some(check_line_deviation(&LineDeviation { sym: refimpl::table::index_of(case["size"].as_str()?)?, column: case["line"] == "column", index: case["index"].as_u64()? as usize })),
        "devrow" => Some(check_deviation_row(&DeviationBlock { sym: refimpl::table::index_of(case["size"].as_str()?)?, row: case["row"].as_u64()? as usize })),
        _ => None,
    }
}
