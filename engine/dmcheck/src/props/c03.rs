//! C03 — guaranteed Reed-Solomon correction capacity in every symbol size.

use super::Prop;
use crate::cases::*;
use crate::core::*;
use crate::gens::*;
use crate::rsgen::*;
use datamatrix::DataMatrix;
use proptest::collection::vec;
use proptest::prelude::*;
use refimpl::gf;
use refimpl::place;
use refimpl::table::SYMBOLS;
use serde_json::{json, Value};
use std::sync::Arc;

pub static PROP: Prop = Prop {
    id: "C03",
    run,
    replay,
    rule: "codeword level: valid codeword vectors (reference encoder) of all 48 sizes corrupted in <= floor(k/2) codewords per interleaved block - enumerated: every single position of every size with 2-3 error values; generated: per block weight in {0,1,t-1,t}, positions stratified over data region / EC region / mixed / last EC codeword - decode_error must return Ok and restore the complete vector; pixel level: encoded messages rendered, 1-8 modules of <= t codewords per block flipped (module addresses from the independent Annex F placement), DataMatrix::decode must return the message; non-trivial = some block carries exactly t errors OR an error lies in the EC region of a block >= 1 OR the size has odd k; distinct by (size, original, received)",
    assumptions: &["block structure from R6, codewords built with the reference RS encoder R4", "module addresses of codewords from R5"],
    extra: super::no_extra,
    fuzz_runs: 100000,
};

pub fn check_word(c: &RsCase) -> Verdict {
    let sym = c.sym();
    let (t, k) = (sym.t(), sym.ec_per_block());
    if c.original.len() != sym.total() || c.received.len() != sym.total() || !gf::is_codeword(sym, &c.original) {
        return Verdict::EngineBug("original is not a codeword of the symbol".into());
    }
    let dist = c.block_distances(&c.original);
    if dist.iter().any(|d| *d > t) {
        return Verdict::EngineBug(format!("pattern exceeds the radius: {:?} > {}", dist, t));
    }
    let mut w = c.received.clone();
    let size = CRATE_SYMBOLS[c.sym];
    match guard(|| datamatrix::errorcode::decode_error(&mut w, size)) {
        Ok(Ok(())) => {}
        Ok(Err(e)) => return fail(format!("{}: decode_error reports {:?} for an error pattern within the correction capacity (errors per block {:?}, t = {}, pattern {})", sym.name, e, dist, t, c.error_summary())),
        Err(p) => return fail(format!("{}: decode_error panicked: {} (errors per block {:?}, t = {}, pattern {})", sym.name, p, dist, t, c.error_summary())),
    }
    if w != c.original {
        let wrong: Vec<usize> = (0..w.len()).filter(|i| w[*i] != c.original[*i]).take(8).collect();
        return fail(format!("{}: decode_error returned Ok but the vector is not restored (still/newly wrong at positions {:?}; errors per block {:?}, t = {}, pattern {})", sym.name, wrong, dist, t, c.error_summary()));
    }
    let full = dist.iter().any(|d| *d == t);
    let ec_later = c.hits_ec_of_later_block();
    let nontrivial = full || ec_later || k % 2 == 1;
    Verdict::Pass(
        Pass::new(format!("{}/blocks{}{}{}{}", c.stratum, sym.blocks, if full { "/full-capacity" } else { "" }, if ec_later { "/ec-of-block>=1" } else { "" }, if k % 2 == 1 { "/odd-k" } else { "" }), nontrivial)
            .count("errors_injected", dist.iter().sum::<usize>() as u64),
    )
}

/// pixel level case: message + flipped modules
#[derive(Debug, Clone)]
pub struct PixelCase {
    pub message: Vec<u8>,
    /// symbol index (single symbol list)
    pub sym: usize,
    /// (codeword index, bit mask != 0) -- at most t distinct codewords per block
    pub flips: Vec<(usize, u8)>,
}

impl Case for PixelCase {
    fn to_json(&self) -> Value {
        json!({"message": hex(&self.message), "size": SYMBOLS[self.sym].name, "flips": self.flips.iter().map(|(c, m)| json!([c, m])).collect::<Vec<_>>()})
    }
}

impl PixelCase {
    fn from_json(v: &Value) -> Option<Self> {
        Some(PixelCase {
            message: unhex(v["message"].as_str()?)?,
            sym: refimpl::table::index_of(v["size"].as_str()?)?,
            flips: v["flips"].as_array()?.iter().map(|f| Some((f[0].as_u64()? as usize, f[1].as_u64()? as u8))).collect::<Option<Vec<_>>>()?,
        })
    }
}

pub fn check_pixels(c: &PixelCase) -> Verdict {
    let sym = &SYMBOLS[c.sym];
    let size = CRATE_SYMBOLS[c.sym];
    let dm = match guard(|| DataMatrix::encode(&c.message, size)) {
        Ok(Ok(dm)) => dm,
        // message does not fit this size: nothing to damage
        Ok(Err(_)) => return Verdict::Pass(Pass::new("pixels/does-not-fit", false)),
        Err(_) => return Verdict::Pass(Pass::new("pixels/encoder-panic(C11)", false)),
    };
    let bm = dm.bitmap();
    let mut px: Vec<bool> = bm.bits().to_vec();
    let w = bm.width();
    if w != sym.cols || px.len() != sym.rows * sym.cols {
        return Verdict::Pass(Pass::new("pixels/wrong-dimensions(C12)", false));
    }
    // precondition: <= t damaged codewords per block
    let mut per_block = vec![0usize; sym.blocks];
    let mut seen = std::collections::BTreeSet::new();
    for (cw, m) in &c.flips {
        if *m == 0 || *cw >= sym.total() || !seen.insert(*cw) {
            return Verdict::EngineBug("bad flip list".into());
        }
        let b = if *cw < sym.data { cw % sym.blocks } else { (cw - sym.data) % sym.blocks };
        per_block[b] += 1;
    }
    if per_block.iter().any(|n| *n > sym.t()) {
        return Verdict::EngineBug("too many damaged codewords in a block".into());
    }
    let lay = place::layout(sym);
    for (cw, m) in &c.flips {
        let mods = place::modules_of_codeword(sym, &lay, *cw);
        for bit in 0..8 {
            if m >> (7 - bit) & 1 == 1 {
                let (r, col) = mods[bit];
                px[r * w + col] = !px[r * w + col];
            }
        }
    }
    match guard(|| DataMatrix::decode(&px, w)) {
        Ok(Ok(out)) if out == c.message => {}
        Ok(Ok(out)) => return fail(format!("{}: decoding the damaged symbol returns {:?} instead of {:?} (damaged codewords per block {:?}, t = {})", sym.name, show(&out), show(&c.message), per_block, sym.t())),
        Ok(Err(e)) => return fail(format!("{}: decoding the damaged symbol fails with {:?} although at most t = {} codewords per block are damaged ({:?}); message {:?}, flips {:?}", sym.name, e, sym.t(), per_block, show(&c.message), c.flips)),
        Err(p) => return fail(format!("{}: decoding the damaged symbol panicked: {} (flips {:?})", sym.name, p, c.flips)),
    }
    let full = per_block.iter().any(|n| *n == sym.t());
    let ec_later = c.flips.iter().any(|(cw, _)| *cw >= sym.data && (cw - sym.data) % sym.blocks >= 1);
    Verdict::Pass(Pass::new(format!("pixels/blocks{}{}{}", sym.blocks, if full { "/full-capacity" } else { "" }, if ec_later { "/ec-of-block>=1" } else { "" }), full || ec_later || sym.ec_per_block() % 2 == 1))
}

fn g_pixels() -> BoxedStrategy<PixelCase> {
    (g_bytes_len(0, 10, 8, 60), any::<u16>(), vec(any::<u16>(), 10), crate::gens::g_blob16(400), crate::gens::g_blob(400))
        .prop_map(|(message, s, weights, raws, masks)| {
            let symi = pick_sym(s);
            let sym = &SYMBOLS[symi];
            let t = sym.t();
            let mut flips = Vec::new();
            let mut it = raws.into_iter();
            let mut mi = masks.into_iter();
            for b in 0..sym.blocks {
                let idx = gf::block_indices(sym, b);
                let wgt = [t, 1, t.saturating_sub(1), t, 0][pick(weights[b], 5)].min(t);
                let mut pool = idx.clone();
                for _ in 0..wgt {
                    let i = pick(it.next().unwrap_or(0), pool.len());
                    let cw = pool.swap_remove(i);
                    let m = mi.next().unwrap_or(1);
                    flips.push((cw, if m == 0 { 0x80 } else { m }));
                }
            }
            PixelCase { message, sym: symi, flips }
        })
        .boxed()
}

fn run(ctx: &Arc<Ctx>) {
    // enumerated: every single-codeword error position of every size
    let mut singles = Vec::new();
    for i in 0..48 {
        let values: &[u8] = if ctx.quick() { &[0x01, 0xB7] } else { &[0x01, 0x80, 0xB7] };
        // quick: every position of sizes up to 64x64 and of all multi-block sizes sampled with stride 3 (offset covers all blocks)
        let step = if ctx.quick() && SYMBOLS[i].total() > 400 { 3 } else { 1 };
        singles.extend(single_errors(i, values, step));
    }
    let ex = if ctx.quick() { None } else { Some("every single-codeword error position of every size x 3 error values") };
    ctx.run_enumerated("single-errors", "rs", singles, ex, check_word);
    ctx.run_generated("patterns", "rs", ctx.cases(100_000, 2_000_000), || g_error_pattern(Radius::Within), check_word);
    ctx.run_generated("constrained-values", "rs", ctx.cases(150_000, 3_000_000), || g_constrained_values(Radius::Within), check_word);
    ctx.run_generated("pixels", "pixels", ctx.cases(20_000, 300_000), g_pixels, check_pixels);
}

fn replay(_ctx: &Ctx, kind: &str, case: &Value) -> Option<Verdict> {
    match kind {
        "rs" => Some(check_word(&RsCase::from_json(case)?)),
        "pixels" => Some(check_pixels(&PixelCase::from_json(case)?)),
        _ => None,
    }
}
