//! C18 — planning agrees with encoding.

use super::Prop;
use crate::cases::*;
use crate::core::*;
use crate::gens::*;
use datamatrix::EncodationType;
use refimpl::codec::{ref_decode, Mode};
use refimpl::table::SYMBOLS;
use serde_json::Value;
use std::sync::Arc;

pub static PROP: Prop = Prop {
    id: "C18",
    run,
    replay,
    rule: "cases = (input, list incl. lists fitted around the needed size, mode subset; plus an enumerated stage of Base256 fields at their limits: 249/250 bytes, fields filling each of the 48 sizes exactly and by one more or less, 1553..1557 bytes) given to data::encodation_plan and data::encode_data(.., None, modes, false); oracle = encodable (the encoder succeeds, or - for the mode sets {Base256} and {ASCII} - an always-legal form computed by the harness fits the largest listed symbol) => plan is Some; plan names only enabled modes; positions never increase, are <= len and end at 0; the non-ASCII modes with >= 1 assigned character (adjacent equal entries merged) equal the latch list the reference decoder finds in the encoder's output, in order; capacity(symbol used) <= capacity(first listed symbol >= written + cost of the plan selected by the planner (hook H1)); non-trivial = plan has >= 1 switch to a non-ASCII mode; distinct by (input, configuration)",
    assumptions: &["hook H1 reports the cost (whole codewords) of the plan selected by the last optimize() call on the calling thread", "not asserted: that a plan implies encodability, nor equality of predicted and actual length"],
    extra: super::no_extra,
    fuzz_runs: 200000,
};

pub fn check(c: &EncCase) -> Verdict {
    if c.list == 0 {
        return Verdict::Pass(Pass::new("empty-list", false));
    }
    let list = mask_to_list(c.list);
    let flags = modes_to_flags(c.modes);
    let n = c.data.len();
    // encoder first (so that the hook statistics read afterwards belong to this call)
    datamatrix::verif::reset_plan_stats();
    let enc = guard(|| datamatrix::data::encode_data(&c.data, &list, None, flags, false));
    let stats = datamatrix::verif::last_plan_stats();
    let plan = match guard(|| datamatrix::data::encodation_plan(&c.data, &list, flags)) {
        Ok(p) => p,
        Err(_) => return Verdict::Pass(Pass::new("planner-panic(C11)", false).count("planner_panics", 1)),
    };
    // encodability decided without the encoder, for the two mode sets where one form is always legal:
    // Base256 alone (one field with explicit length) and ASCII alone (digit pairs, upper shift)
    if plan.is_none() {
        if let Some((w, what)) = witness_len(&c.data, c.modes) {
            let max_cap = mask_sorted_caps(c.list).last().copied().unwrap_or(0);
            if w <= max_cap {
                return fail(format!(
                    "encodation_plan returns None but the input can be encoded: {} takes {} codewords, the largest listed symbol holds {} (input of {} bytes {:?}, modes {}, list {})",
                    what, w, max_cap, n, show(&c.data), mode_names(c.modes), mask_names(c.list)
                ));
            }
        }
    }
    let (cw, size) = match enc {
        Ok(Ok(x)) => x,
        Ok(Err(_)) => return Verdict::Pass(Pass::new(format!("{}/refused{}", crate::obs::modes_class(c.modes), if plan.is_some() { "-with-plan" } else { "" }), false).count("refused", 1)),
        Err(_) => return Verdict::Pass(Pass::new("encoder-panic(C11)", false).count("encoder_panics", 1)),
    };
    let desc = || format!("input {:?}, modes {}, list {}", show(&c.data), mode_names(c.modes), mask_names(c.list));
    let Some(plan) = plan else {
        return fail(format!("encode_data succeeds ({:?}, {} codewords) but encodation_plan returns None ({})", size, cw.len(), desc()));
    };
    // well-formedness
    if plan.is_empty() {
        return fail(format!("plan is empty ({})", desc()));
    }
    let mut prev = usize::MAX;
    for (i, (rest, m)) in plan.iter().enumerate() {
        if c.modes & ref_mode(*m).bit() == 0 {
            // the terminator repeats the last mode; the implicit ASCII start is never listed
            return fail(format!("plan entry #{} names {:?} which is not enabled; plan {:?} ({})", i, m, plan, desc()));
        }
        if *rest > n {
            return fail(format!("plan entry #{} has {} characters remaining, the input has {}; plan {:?} ({})", i, rest, n, plan, desc()));
        }
        if *rest > prev {
            return fail(format!("remaining-character positions increase at entry #{}; plan {:?} ({})", i, plan, desc()));
        }
        prev = *rest;
    }
    if plan.last().unwrap().0 != 0 {
        return fail(format!("plan does not end at 0 remaining characters; plan {:?} ({})", plan, desc()));
    }
    // non-ASCII modes with at least one assigned character, adjacent equal entries merged
    let mut merged: Vec<(EncodationType, usize)> = Vec::new();
    for w in plan.windows(2) {
        let assigned = w[0].0 - w[1].0;
        if assigned == 0 {
            continue;
        }
        match merged.last_mut() {
            Some((m, a)) if *m == w[0].1 => *a += assigned,
            _ => merged.push((w[0].1, assigned)),
        }
    }
    let plan_modes: Vec<Mode> = merged.iter().map(|(m, _)| ref_mode(*m)).filter(|m| *m != Mode::Ascii).collect();
    // predicted symbol (needs no reading of the stream: also decided for streams that are not conformant)
    if stats.calls == 1 {
        if let Some(cost) = stats.chosen_cost {
            let predicted_len = stats.written + cost;
            let caps = mask_sorted_caps(c.list);
            if let Some(pred_cap) = caps.iter().find(|x| **x >= predicted_len) {
                if sym_of(size).data > *pred_cap {
                    return fail(format!(
                        "the planner predicted {} codewords for its chosen plan (symbol capacity {}), the encoder needed a larger symbol ({:?}, capacity {}); plan {:?}, codewords {:?} ({})",
                        predicted_len, pred_cap, size, sym_of(size).data, plan, cw, desc()
                    ));
                }
            }
        }
    }
    let d = match ref_decode(&cw) {
        Ok(d) => d,
        Err(_) => return Verdict::Pass(Pass::new("stream-not-conformant(C02)", false).count("not_conformant", 1)),
    };
    if d.latches != plan_modes {
        return fail(format!("latches in the encoder output {:?} differ from the non-ASCII modes the plan assigns characters to {:?}; plan {:?}, codewords {:?} ({})", d.latches, plan_modes, plan, cw, desc()));
    }
    // predicted symbol
    if stats.calls != 1 {
        return Verdict::EngineBug(format!("hook: {} planner calls during one encode_data", stats.calls));
    }
    let Some(cost) = stats.chosen_cost else {
        return Verdict::EngineBug("hook: encoder succeeded but no chosen plan cost was recorded".into());
    };
    let predicted_len = stats.written + cost;
    let caps = mask_sorted_caps(c.list);
    let used_cap = sym_of(size).data;
    if let Some(pred_cap) = caps.iter().find(|x| **x >= predicted_len) {
        if used_cap > *pred_cap {
            return fail(format!(
                "the planner predicted {} codewords for its chosen plan (symbol capacity {}), the encoder needed a larger symbol ({:?}, capacity {}, unpadded length {}); plan {:?}, codewords {:?} ({})",
                predicted_len, pred_cap, size, used_cap, d.unpadded_len(), plan, cw, desc()
            ));
        }
    }
    let nontrivial = !plan_modes.is_empty();
    let eod = crate::obs::ending_class(&d, cw.len());
    Verdict::Pass(
        Pass::new(format!("{}/{}/{}", c.stratum, crate::obs::modes_class(c.modes), eod), nontrivial)
            .count("mode_specific_end_of_data", matches!(eod, "implicit-ascii-tail" | "latched-to-end" | "b256-to-end") as u64)
            .count("predicted_equals_actual", (predicted_len == d.unpadded_len()) as u64)
            .count("actual_shorter_than_predicted", (d.unpadded_len() < predicted_len) as u64)
            .count("actual_longer_than_predicted", (d.unpadded_len() > predicted_len) as u64),
    )
}

/// Length of an always-legal encoding for the mode sets {Base256} and {ASCII} (None: no statement).
fn witness_len(data: &[u8], modes: u8) -> Option<(usize, &'static str)> {
    let n = data.len();
    if n == 0 {
        return None;
    }
    if modes == Mode::Base256.bit() {
        if n > 1555 {
            return None;
        }
        return Some((1 + if n <= 249 { 1 } else { 2 } + n, "a single Base256 field with explicit length"));
    }
    if modes == Mode::Ascii.bit() {
        let (mut i, mut w) = (0, 0);
        while i < n {
            if i + 1 < n && data[i].is_ascii_digit() && data[i + 1].is_ascii_digit() {
                i += 2;
                w += 1;
            } else {
                w += if data[i] >= 128 { 2 } else { 1 };
                i += 1;
            }
        }
        return Some((w, "plain ASCII encodation"));
    }
    None
}

/// Inputs at the limits of a Base256 field: the 249/250 length-byte boundary, the fields that fill each
/// symbol exactly (explicit length) or by one more or less, and the longest field of all (1555 bytes).
pub fn b256_limit_cases() -> Vec<EncCase> {
    let mut lens: Vec<usize> = vec![1, 2, 248, 249, 250, 251, 252, 1553, 1554, 1555, 1556, 1557];
    for s in SYMBOLS.iter() {
        for head in [2usize, 3] {
            for d in 0..3 {
                if s.data + 1 >= head + d {
                    lens.push(s.data + 1 - head - d);
                }
            }
        }
    }
    lens.sort_unstable();
    lens.dedup();
    lens.retain(|n| *n >= 1);
    let big = (0..48).max_by_key(|i| SYMBOLS[*i].data).unwrap();
    let mut v = Vec::new();
    for &n in &lens {
        for (k, list) in [ALL_MASK, default_mask(), 1u64 << big].into_iter().enumerate() {
            for modes in [32u8, 33, 63, 1] {
                if modes == 1 && n > 800 {
                    continue;
                }
                // two fillings: constant high byte, and varying bytes >= 128
                for fill in 0..2 {
                    if fill == 1 && (k != 0 || n > 300 && n < 1500) {
                        continue;
                    }
                    let data: Vec<u8> = (0..n).map(|i| if fill == 0 { 0xFF } else { 0x80 | (i as u8).wrapping_mul(37) }).collect();
                    v.push(EncCase { data, list, modes, macros: false, fnc1: false, eci: None, stratum: "b256-limit" });
                }
            }
        }
    }
    v
}

fn run(ctx: &Arc<Ctx>) {
    let mut fixed = Vec::new();
    for s in [&b"ABCDEFGH12345678"[..], b"3108", b"Hello!", b"AIMAIMAIM", b"", b"1", b"ABC", b"*>\r ABC123", b"\xfaaaa"] {
        for modes in 1..64u8 {
            fixed.push(EncCase { data: s.to_vec(), list: default_mask(), modes, macros: false, fnc1: false, eci: None, stratum: "fixed" });
        }
    }
    ctx.run_enumerated("fixed", "enc", fixed, None, check);
    ctx.run_enumerated("b256-limit", "enc", b256_limit_cases(), None, check);
    let o = EncGenOpts { long_weight: if ctx.quick() { 1 } else { 2 }, macro_weight: 0, allow_fnc1: false, allow_macros_flag: false, ..Default::default() };
    ctx.run_generated("generated", "enc", ctx.cases(400_000, 4_000_000), || g_enc_case(o), check);
    let _ = SYMBOLS.len();
}

fn replay(_ctx: &Ctx, kind: &str, case: &Value) -> Option<Verdict> {
    match kind {
        "enc" => Some(check(&EncCase::from_json(case)?)),
        _ => None,
    }
}
