//! Property registry, replay of saved cases.

use crate::core::{Ctx, Verdict};
use serde_json::{Map, Value};
use std::path::Path;
use std::sync::Arc;

pub mod c01;
pub mod c02;
pub mod c03;
pub mod c04;
pub mod c05;
pub mod c06;
pub mod c07;
pub mod c08;
pub mod c09;
pub mod c10;
pub mod c11;
pub mod c12;
pub mod c13;
pub mod c14;
pub mod c15;
pub mod c16;
pub mod c17;
pub mod c18;
pub mod c19;

pub struct Prop {
    pub id: &'static str,
    pub run: fn(&Arc<Ctx>),
    /// re-execute a saved case: (kind, case json) -> verdict; None if the kind is unknown
    pub replay: fn(&Ctx, &str, &Value) -> Option<Verdict>,
    pub rule: &'static str,
    pub assumptions: &'static [&'static str],
    pub extra: fn(&Ctx) -> Map<String, Value>,
    /// libFuzzer executions per worker in the thorough tier (0: no coverage-guided stage)
    pub fuzz_runs: u64,
}

pub fn no_extra(_: &Ctx) -> Map<String, Value> {
    Map::new()
}

pub fn all() -> Vec<&'static Prop> {
    vec![&c01::PROP, &c02::PROP, &c03::PROP, &c04::PROP, &c05::PROP, &c06::PROP, &c07::PROP, &c08::PROP, &c09::PROP, &c10::PROP, &c11::PROP, &c12::PROP, &c13::PROP, &c14::PROP, &c15::PROP, &c16::PROP, &c17::PROP, &c18::PROP, &c19::PROP]
}

pub fn find(id: &str) -> Option<&'static Prop> {
    all().into_iter().find(|p| p.id == id)
}

/// Replay one file. `strict`: print the outcome and return the exit code.
pub fn replay_file(ctx: &Ctx, prop: &Prop, file: &Path, strict: bool) -> i32 {
    let txt = match std::fs::read_to_string(file) {
        Ok(t) => t,
        Err(e) => {
            eprintln!("cannot read {}: {}", file.display(), e);
            return 2;
        }
    };
    let v: Value = match serde_json::from_str(&txt) {
        Ok(v) => v,
        Err(e) => {
            eprintln!("cannot parse {}: {}", file.display(), e);
            return 2;
        }
    };
    let kind = v["kind"].as_str().unwrap_or("");
    let verdict = crate::core::guard(|| replay_any(ctx, prop, kind, &v["case"]));
    match verdict {
        Ok(Some(Verdict::Pass(p))) => {
            if strict {
                println!("replay {}: property holds on this case (class {})", file.display(), p.class);
            }
            0
        }
        Ok(Some(Verdict::Known(sig))) => {
            if strict {
                println!("KNOWN-FINDING: property={} {}", prop.id, ctx.is_known(&sig).map(|f| f.what.clone()).unwrap_or(sig));
            }
            0
        }
        Ok(Some(Verdict::Fail(r))) => {
            println!("replay {}: {}", file.display(), r);
            println!("VIOLATION property={} replay={}", prop.id, file.display());
            1
        }
        Ok(Some(Verdict::EngineBug(r))) => {
            println!("INCONCLUSIVE property={} oracle self-check failed on replay: {}", prop.id, r);
            2
        }
        Ok(None) => {
            eprintln!("replay {}: unknown case kind {:?} for {}", file.display(), kind, prop.id);
            2
        }
        Err(p) => {
            println!("INCONCLUSIVE property={} harness panic on replay: {}", prop.id, p);
            2
        }
    }
}

/// `kind == "corpus"`: a raw fuzz input (target + bytes) decoded by `targets`; everything else
/// is the property's own case format.
pub fn replay_any(ctx: &Ctx, prop: &Prop, kind: &str, case: &Value) -> Option<Verdict> {
    if kind == "corpus" {
        let target = crate::targets::TARGETS.into_iter().find(|t| Some(*t) == case["target"].as_str())?;
        let bytes = crate::core::unhex(case["input_hex"].as_str()?)?;
        let id = all().into_iter().find(|p| p.id == prop.id)?.id;
        let c = crate::targets::CorpusCase { target, file: String::new(), bytes };
        return Some(crate::targets::check_corpus_case(id, &c, ctx).0);
    }
    (prop.replay)(ctx, kind, case)
}

/// Stage 1 of every run: replay /verif/regress/<ID>/*.json (every shrunk failure ever found).
pub fn replay_regressions(ctx: &Arc<Ctx>, prop: &Prop) {
    let dir = ctx.root.join("regress").join(prop.id);
    let Ok(rd) = std::fs::read_dir(&dir) else { return };
    let mut files: Vec<_> = rd.flatten().map(|e| e.path()).filter(|p| p.extension().map_or(false, |e| e == "json")).collect();
    files.sort();
    let mut n = 0;
    for f in files {
        let Ok(txt) = std::fs::read_to_string(&f) else { continue };
        let Ok(v) = serde_json::from_str::<Value>(&txt) else {
            ctx.inconclusive.lock().unwrap().push(format!("regression file {} is not valid JSON", f.display()));
            continue;
        };
        let kind = v["kind"].as_str().unwrap_or("").to_string();
        let case = RawCase { kind: kind.clone(), v: v["case"].clone() };
        n += 1;
        ctx.run_single("regress", "regress", &case, |c| match replay_any(ctx, prop, &c.kind, &c.v) {
            Some(Verdict::Pass(mut p)) => {
                p.class = format!("{}:{}", c.kind, p.class);
                Verdict::Pass(p)
            }
            Some(v) => v,
            None => Verdict::EngineBug(format!("unknown kind {} in {}", c.kind, f.display())),
        });
    }
    if n > 0 {
        ctx.note(format!("replayed {} regression files from regress/{}", n, prop.id));
    }
}

#[derive(Debug, Clone)]
pub struct RawCase {
    pub kind: String,
    pub v: Value,
}

impl crate::core::Case for RawCase {
    fn to_json(&self) -> Value {
        self.v.clone()
    }
}
