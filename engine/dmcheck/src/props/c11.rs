//! C11 — encoding is total and failures are classified correctly.

use super::Prop;
use crate::cases::*;
use crate::core::*;
use crate::gens::*;
use datamatrix::data::DataEncodingError;
use serde_json::Value;
use std::sync::Arc;

pub static PROP: Prop = Prop {
    id: "C11",
    run,
    replay,
    rule: "cases = (input, list incl. empty / single / fitted lists, one of the 64 mode subsets, macro flag, FNC1 flag, ECI none or 0..=999999) run through DataMatrixBuilder::encode/encode_eci, encode_str (input read as Latin-1 code points), data::encode_data and data::encodation_plan, in a plain release build and in a build with overflow checks + debug assertions; oracle = no unwind, SymbolListEmpty iff the list is empty, every other refusal TooMuchOrIllegalData; non-trivial = list not default OR mode set not all OR macro-envelope stratum OR length > 1555; distinct by (input, configuration)",
    assumptions: &["ECI numbers above 999999 are outside the documented domain and are not generated", "a hang is detected by the 60 s watchdog and confirmed by an isolated re-run"],
    extra: super::no_extra,
    fuzz_runs: 200000,
};

fn classify(what: &str, c: &EncCase, r: Result<Result<(), DataEncodingError>, String>) -> Result<&'static str, String> {
    match r {
        Err(p) => Err(format!("{} panicked: {} (input {:?})", what, p, show(&c.data))),
        Ok(Ok(())) => {
            if c.list == 0 {
                Err(format!("{} succeeded with an empty symbol list", what))
            } else {
                Ok("ok")
            }
        }
        Ok(Err(DataEncodingError::SymbolListEmpty)) => {
            if c.list != 0 {
                Err(format!("{} reports SymbolListEmpty for the non-empty list {} (input of {} bytes: {:?})", what, mask_names(c.list), c.data.len(), show(&c.data)))
            } else {
                Ok("list-empty")
            }
        }
        Ok(Err(DataEncodingError::TooMuchOrIllegalData)) => {
            if c.list == 0 {
                Err(format!("{} reports TooMuchOrIllegalData for an empty symbol list (must be SymbolListEmpty)", what))
            } else {
                Ok("refused")
            }
        }
    }
}

pub fn check(c: &EncCase) -> Verdict {
    let mut outcome = String::new();
    // 1. builder
    let r = guard(|| c.encode().map(|_| ()));
    match classify("DataMatrixBuilder::encode", c, r) {
        Ok(o) => outcome.push_str(o),
        Err(e) => return fail(e),
    }
    // 2. data::encode_data (no FNC1 parameter)
    let list = mask_to_list(c.list);
    let r = guard(|| datamatrix::data::encode_data(&c.data, &list, c.eci, modes_to_flags(c.modes), c.macros).map(|_| ()));
    if let Err(e) = classify("data::encode_data", c, r) {
        return fail(e);
    }
    // 3. planning API never unwinds
    if let Err(p) = guard(|| datamatrix::data::encodation_plan(&c.data, &list, modes_to_flags(c.modes)).map(|p| p.len())) {
        return fail(format!("data::encodation_plan panicked: {} (input {:?})", p, show(&c.data)));
    }
    // 4. string API (input bytes read as Latin-1 code points; ECI is chosen by the crate)
    if c.eci.is_none() {
        let s: String = c.data.iter().map(|b| *b as char).collect();
        let r = guard(|| c.builder().encode_str(&s).map(|_| ()));
        if let Err(e) = classify("DataMatrixBuilder::encode_str", c, r) {
            return fail(e);
        }
    }
    let nontrivial = c.list != default_mask() || c.modes != 63 || c.stratum.starts_with("macro") || c.data.len() > 1555;
    Verdict::Pass(Pass::new(format!("{}/{}/{}/{}", c.stratum, crate::obs::list_class(c.list), crate::obs::modes_class(c.modes), outcome), nontrivial))
}

fn run(ctx: &Arc<Ctx>) {
    // fixed: repository examples + boundary lengths of the largest symbols
    let mut fixed = Vec::new();
    for s in [&b""[..], b"A", b"[)>\x1e05\x1d", b"[)>\x1e06\x1d", b"[)>\x1e05\x1d\x1e", b"[)>\x1e05\x1d\x1e\x04", b"[)>\x1e05\x1dA\x1e\x04"] {
        for modes in 0..64u8 {
            for (macros, fnc1) in [(true, false), (false, false), (true, true)] {
                fixed.push(EncCase { data: s.to_vec(), list: default_mask(), modes, macros, fnc1, eci: None, stratum: "fixed" });
            }
        }
    }
    for len in [1554usize, 1555, 1556, 1557, 1558, 1559, 2000, 3115, 3116, 3117, 3200] {
        for fill in [b'1', b'A', 0xE9u8] {
            for list in [default_mask(), ALL_MASK, 1 << 23, (1 << 23) | (1 << 22), 0] {
                fixed.push(EncCase { data: vec![fill; len], list, modes: 63, macros: true, fnc1: false, eci: None, stratum: "fixed-long" });
            }
        }
    }
    ctx.run_enumerated("fixed", "enc", fixed, None, check);
    let o = EncGenOpts { long_weight: if ctx.quick() { 1 } else { 2 }, macro_weight: 3, eci: true, modes64: true, allow_empty_list: true, ..Default::default() };
    ctx.run_generated("generated", "enc", ctx.cases(300_000, 4_000_000), || g_enc_case(o), check);
}

fn replay(_ctx: &Ctx, kind: &str, case: &Value) -> Option<Verdict> {
    match kind {
        "enc" => Some(check(&EncCase::from_json(case)?)),
        _ => None,
    }
}
