//! C09 — error correction never reports success on a word that is not a codeword.

use super::Prop;
use crate::cases::*;
use crate::core::*;
use crate::rsgen::*;
use refimpl::gf;
use refimpl::table::SYMBOLS;
use serde_json::Value;
use std::sync::Arc;

pub static PROP: Prop = Prop {
    id: "C09",
    run,
    replay,
    rule: "received words of all 48 sizes (60 % weight on the 7 odd-k sizes and on multi-block sizes): (i) uniformly random, (ii) codeword + errors of weight t+1..k (or whole block) in at least one block, (iii) constructed near-miss c + w|S with w a minimum-weight codeword and |S| = k+1-t (farther than t from c, exactly t from c+w), (iv) words with a zero prefix of 1..k-1 syndromes, (v) words with a prescribed syndrome vector (isolated non-zero syndromes, zero runs, consistent sequences of 1/2/t errors with one perturbed syndrome) built by solving the Vandermonde system; oracle = if decode_error returns Ok, every block of the word left behind has all k syndromes zero (independent GF arithmetic) and encode_error(data part) equals its EC part; for (iii) the result must be c+w; non-trivial = farther than t from the codeword it was built from in at least one block; distinct by (size, received)",
    assumptions: &["Err is always acceptable beyond the radius; panics are C05's and only counted", "R4 field arithmetic and linear solver"],
    extra: super::no_extra,
    fuzz_runs: 100000,
};

pub fn check(c: &RsCase) -> Verdict {
    let sym = c.sym();
    let t = sym.t();
    if c.received.len() != sym.total() {
        return Verdict::EngineBug("length".into());
    }
    let dist = c.block_distances(&c.original);
    let beyond = dist.iter().any(|d| *d > t);
    let mut w = c.received.clone();
    let size = CRATE_SYMBOLS[c.sym];
    let r = match guard(|| datamatrix::errorcode::decode_error(&mut w, size)) {
        Ok(r) => r,
        Err(_) => return Verdict::Pass(Pass::new(format!("{}/decoder-panic(C05)", c.stratum), false).count("decoder_panics", 1)),
    };
    match r {
        Err(_) => Verdict::Pass(Pass::new(format!("{}/blocks{}/err", c.stratum, sym.blocks), beyond).count("err_beyond_radius", beyond as u64)),
        Ok(()) => {
            for b in 0..sym.blocks {
                let syn = gf::block_syndromes(sym, &w, b);
                if let Some(j) = syn.iter().position(|s| *s != 0) {
                    return fail(format!(
                        "{}: decode_error returned Ok but block {} of the result is not a codeword (syndrome S_{} = {} of k = {}); received word was at distances {:?} per block from the codeword it was built from (t = {}), pattern {}",
                        sym.name, b, j + 1, syn[j], sym.ec_per_block(), dist, t, c.error_summary()
                    ));
                }
            }
            // the statement's own formulation: re-encoding the data part reproduces the EC part
            match guard(|| datamatrix::errorcode::encode_error(&w[..sym.data], size)) {
                Ok(ec) if ec[..] == w[sym.data..] => {}
                Ok(_) => return fail(format!("{}: decode_error returned Ok but encode_error(data part) differs from the EC part left behind", sym.name)),
                Err(p) => return fail(format!("{}: encode_error panicked on the corrected data part: {}", sym.name, p)),
            }
            if let Some(near) = &c.nearest {
                if &w != near {
                    return fail(format!("{}: near-miss word (distance exactly t = {} from a codeword) was decoded to a different vector", sym.name, t));
                }
            }
            Verdict::Pass(Pass::new(format!("{}/blocks{}/ok", c.stratum, sym.blocks), beyond).count("ok_beyond_radius", beyond as u64))
        }
    }
}

fn run(ctx: &Arc<Ctx>) {
    // success must mean "codeword" inside the correction radius as well (a decoder that repairs one block
    // and damages another one answers Ok there)
    let mut singles = Vec::new();
    for i in 0..48 {
        let step = if ctx.quick() { (SYMBOLS[i].total() / 40).max(1) } else { 1 };
        singles.extend(single_errors(i, &[0x5a], step));
        // the last codeword of every block (the stride of the interleaving decides where it is)
        let s = &SYMBOLS[i];
        let data: Vec<u8> = (0..s.data).map(|k| (k as u32 * 151 + 7) as u8).collect();
        let original = codeword_for(s, &data);
        for b in 0..s.blocks {
            let mut received = original.clone();
            let p = s.total() - s.blocks + b;
            received[p] ^= 0x5a;
            singles.push(RsCase { sym: i, original: original.clone(), received, nearest: None, stratum: "single-error-last-ec" });
        }
    }
    ctx.run_enumerated("single-errors", "rs", singles, None, check);
    ctx.run_generated("within", "rs", ctx.cases(60_000, 2_000_000), || g_error_pattern(Radius::Within), check);
    ctx.run_generated("random", "rs", ctx.cases(250_000, 20_000_000), g_random_word, check);
    ctx.run_generated("beyond", "rs", ctx.cases(80_000, 8_000_000), || g_error_pattern(Radius::Beyond), check);
    ctx.run_generated("near-miss", "rs", ctx.cases(30_000, 2_000_000), g_near_miss, check);
    ctx.run_generated("syndrome-pattern", "rs", ctx.cases(60_000, 4_000_000), g_syndrome_pattern, check);
    ctx.run_generated("constrained-values", "rs", ctx.cases(80_000, 3_000_000), || g_constrained_values(Radius::Beyond), check);
    ctx.run_generated("zero-prefix", "rs", ctx.cases(40_000, 3_000_000), g_zero_syndrome_prefix, check);
}

fn replay(_ctx: &Ctx, kind: &str, case: &Value) -> Option<Verdict> {
    match kind {
        "rs" => Some(check(&RsCase::from_json(case)?)),
        _ => None,
    }
}
