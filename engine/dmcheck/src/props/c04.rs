//! C04 — the decoder accepts every standard-conformant codeword stream.

use super::Prop;
use crate::core::*;
use crate::gens::*;
use proptest::collection::vec;
use proptest::prelude::*;
use refimpl::codec::{c40_values, pad_to, ref_decode, script_stream, x12_value, Mode, Step};
use refimpl::table::capacities;
use serde_json::{json, Value};
use std::sync::Arc;

pub static PROP: Prop = Prop {
    id: "C04",
    run,
    replay,
    rule: "cases = (byte string, mode-switch script, termination form, symbol capacity, header) constructed segment by segment: ASCII runs (single characters, digit pairs, upper shift), C40/Text runs with all shift sets topped up to whole triples, X12 triples, EDIFACT runs closed by unlatch, Base256 with 1- and 2-byte length fields, then one of 10 final forms (clean + pad, C40/Text exact / pad-shift / unlatch+ASCII / implicit ASCII, X12 exact / implicit ASCII, EDIFACT exact / ASCII tail, Base256 to end) at a real capacity, headers none / macro 05 / macro 06 / FNC1 / ECI 26; the stream is produced by the independent script encoder R2 and self-checked with the reference decoder R1; oracle = data::decode_data returns exactly the input (decode_str for the string variants); non-trivial = script has >= 2 segments of different non-ASCII modes OR a final form other than clean+pad OR a Base256 run >= 250 bytes; distinct by (input, script, capacity, header)",
    assumptions: &[
        "R2 emits only uncontroversial standard forms; no EDIFACT group starts with fewer than 3 codewords left in the symbol (such streams are ambiguous)",
        "every case is self-checked R1(R2(x)) = x; a self-check failure aborts the run as inconclusive (exit 2), never as a violation",
    ],
    extra: super::no_extra,
    fuzz_runs: 200000,
};

#[derive(Debug, Clone, Copy, PartialEq, Eq)]
pub enum Header {
    None,
    Macro05,
    Macro06,
    Fnc1,
    /// ECI 26 (UTF-8) designator in front, checked through decode_str
    EciUtf8,
    /// no header, checked through decode_str (input restricted to printable Latin-1)
    Latin1Str,
    /// Macro 05 / 06 codeword, payload restricted to printable Latin-1, checked through decode_str
    /// (the decoder re-creates header and trailer around the Latin-1 payload)
    Macro05Str,
    Macro06Str,
}

#[derive(Debug, Clone)]
pub struct ScriptCase {
    /// the bytes the script encodes (macro body for macro headers)
    pub data: Vec<u8>,
    pub steps: Vec<Step>,
    pub header: Header,
    pub cap: usize,
}

fn mode_name(m: Mode) -> &'static str {
    match m {
        Mode::Ascii => "Ascii",
        Mode::C40 => "C40",
        Mode::Text => "Text",
        Mode::X12 => "X12",
        Mode::Edifact => "Edifact",
        Mode::Base256 => "Base256",
    }
}

fn mode_from(s: &str) -> Option<Mode> {
    [Mode::Ascii, Mode::C40, Mode::Text, Mode::X12, Mode::Edifact, Mode::Base256].into_iter().find(|m| mode_name(*m) == s)
}

fn step_str(s: &Step) -> String {
    match s {
        Step::A1 => "A1".into(),
        Step::A2 => "A2".into(),
        Step::Fnc1 => "Fnc1".into(),
        Step::Seg(m, n) => format!("Seg:{}:{}", mode_name(*m), n),
        Step::FinalC40Exact(m, n) => format!("FinalC40Exact:{}:{}", mode_name(*m), n),
        Step::FinalC40Pad(m, n) => format!("FinalC40Pad:{}:{}", mode_name(*m), n),
        Step::FinalC40UnlatchAscii(m, n) => format!("FinalC40UnlatchAscii:{}:{}", mode_name(*m), n),
        Step::FinalC40ImplicitAscii(m, n) => format!("FinalC40ImplicitAscii:{}:{}", mode_name(*m), n),
        Step::FinalX12Exact(n) => format!("FinalX12Exact:X12:{}", n),
        Step::FinalX12ImplicitAscii(n) => format!("FinalX12ImplicitAscii:X12:{}", n),
        Step::FinalC40ImplicitPair(m, n) => format!("FinalC40ImplicitPair:{}:{}", mode_name(*m), n),
        Step::FinalX12ImplicitPair(n) => format!("FinalX12ImplicitPair:X12:{}", n),
        Step::FinalEdifactExact(n) => format!("FinalEdifactExact:Edifact:{}", n),
        Step::FinalEdifactAscii(n, t) => format!("FinalEdifactAscii:Edifact:{}:{}", n, t),
        Step::FinalBase256ToEnd(n) => format!("FinalBase256ToEnd:Base256:{}", n),
    }
}

fn step_from(s: &str) -> Option<Step> {
    let p: Vec<&str> = s.split(':').collect();
    let n = |i: usize| p.get(i)?.parse::<usize>().ok();
    Some(match p[0] {
        "A1" => Step::A1,
        "A2" => Step::A2,
        "Fnc1" => Step::Fnc1,
        "Seg" => Step::Seg(mode_from(p[1])?, n(2)?),
        "FinalC40Exact" => Step::FinalC40Exact(mode_from(p[1])?, n(2)?),
        "FinalC40Pad" => Step::FinalC40Pad(mode_from(p[1])?, n(2)?),
        "FinalC40UnlatchAscii" => Step::FinalC40UnlatchAscii(mode_from(p[1])?, n(2)?),
        "FinalC40ImplicitAscii" => Step::FinalC40ImplicitAscii(mode_from(p[1])?, n(2)?),
        "FinalX12Exact" => Step::FinalX12Exact(n(2)?),
        "FinalX12ImplicitAscii" => Step::FinalX12ImplicitAscii(n(2)?),
        "FinalC40ImplicitPair" => Step::FinalC40ImplicitPair(mode_from(p[1])?, n(2)?),
        "FinalX12ImplicitPair" => Step::FinalX12ImplicitPair(n(2)?),
        "FinalEdifactExact" => Step::FinalEdifactExact(n(2)?),
        "FinalEdifactAscii" => Step::FinalEdifactAscii(n(2)?, n(3)?),
        "FinalBase256ToEnd" => Step::FinalBase256ToEnd(n(2)?),
        _ => return None,
    })
}

impl Case for ScriptCase {
    fn to_json(&self) -> Value {
        json!({
            "data": hex(&self.data),
            "script": self.steps.iter().map(step_str).collect::<Vec<_>>(),
            "header": format!("{:?}", self.header),
            "capacity": self.cap,
        })
    }
}

impl ScriptCase {
    fn from_json(v: &Value) -> Option<Self> {
        let header = match v["header"].as_str()? {
            "None" => Header::None,
            "Macro05" => Header::Macro05,
            "Macro06" => Header::Macro06,
            "Fnc1" => Header::Fnc1,
            "EciUtf8" => Header::EciUtf8,
            "Latin1Str" => Header::Latin1Str,
            "Macro05Str" => Header::Macro05Str,
            "Macro06Str" => Header::Macro06Str,
            _ => return None,
        };
        Some(ScriptCase {
            data: unhex(v["data"].as_str()?)?,
            steps: v["script"].as_array()?.iter().map(|s| step_from(s.as_str()?)).collect::<Option<Vec<_>>>()?,
            header,
            cap: v["capacity"].as_u64()? as usize,
        })
    }

    fn prefix(&self) -> Vec<u8> {
        match self.header {
            Header::None | Header::Latin1Str => vec![],
            Header::Macro05 | Header::Macro05Str => vec![236],
            Header::Macro06 | Header::Macro06Str => vec![237],
            Header::Fnc1 => vec![232],
            Header::EciUtf8 => vec![241, 27],
        }
    }
}

fn is_final(s: &Step) -> bool {
    !matches!(s, Step::A1 | Step::A2 | Step::Fnc1 | Step::Seg(..))
}

pub fn check(c: &ScriptCase) -> Verdict {
    let prefix = c.prefix();
    // R2: build the stream (panics inside are engine bugs, caught by the runner)
    let unpadded = script_stream(&c.data, &c.steps, &prefix);
    if unpadded.len() > c.cap || c.cap > 1558 {
        // does not fit the chosen / the largest symbol: outside the domain
        return Verdict::Pass(Pass::new("too-long", false));
    }
    let stream = pad_to(unpadded, c.cap);
    // self-check with R1
    let d = match ref_decode(&stream) {
        Ok(d) => d,
        Err(e) => return Verdict::EngineBug(format!("reference decoder rejects the reference encoder's stream: {} ({:?})", e.0, stream)),
    };
    if d.bytes != c.data {
        return Verdict::EngineBug(format!("reference decoder reads {:?} from the reference encoder's stream for {:?}", show(&d.bytes), show(&c.data)));
    }
    let expected: Vec<u8> = d.message();
    let desc = || format!("script {:?}, header {:?}, capacity {}, stream {:?}", c.steps.iter().map(step_str).collect::<Vec<_>>(), c.header, c.cap, stream);
    match c.header {
        Header::EciUtf8 | Header::Latin1Str | Header::Macro05Str | Header::Macro06Str => {
            let want: String = if c.header == Header::EciUtf8 {
                match std::str::from_utf8(&c.data) {
                    Ok(s) => s.to_string(),
                    Err(_) => return Verdict::EngineBug("generator produced invalid UTF-8 for the ECI 26 variant".into()),
                }
            } else {
                // Latin-1 payload (and, for the macro variants, the 7-bit header / trailer around it)
                expected.iter().map(|b| *b as char).collect()
            };
            match guard(|| datamatrix::data::decode_str(&stream)) {
                Ok(Ok(s)) if s == want => {}
                Ok(Ok(s)) => return fail(format!("decode_str returns {:?}, the conformant stream encodes {:?} ({})", s, want, desc())),
                Ok(Err(e)) => return fail(format!("decode_str rejects a conformant stream with {:?}; it encodes {:?} ({})", e, want, desc())),
                Err(p) => return fail(format!("decode_str panicked on a conformant stream: {} ({})", p, desc())),
            }
        }
        _ => match guard(|| datamatrix::data::decode_data(&stream)) {
            Ok(Ok(out)) if out == expected => {}
            Ok(Ok(out)) => return fail(format!("decode_data returns {:?}, the conformant stream encodes {:?} ({})", show(&out), show(&expected), desc())),
            Ok(Err(e)) => return fail(format!("decode_data rejects a conformant stream with {:?}; it encodes {:?} ({})", e, show(&expected), desc())),
            Err(p) => return fail(format!("decode_data panicked on a conformant stream: {} ({})", p, desc())),
        },
    }
    let mut modes: Vec<Mode> = Vec::new();
    let mut big_b256 = false;
    for s in &c.steps {
        let m = match s {
            Step::A1 | Step::A2 | Step::Fnc1 => continue,
            Step::Seg(m, n) => {
                if *m == Mode::Base256 && *n >= 250 {
                    big_b256 = true;
                }
                *m
            }
            Step::FinalC40Exact(m, _) | Step::FinalC40Pad(m, _) | Step::FinalC40UnlatchAscii(m, _) | Step::FinalC40ImplicitAscii(m, _) => *m,
            Step::FinalC40ImplicitPair(m, _) => *m,
            Step::FinalX12Exact(_) | Step::FinalX12ImplicitAscii(_) | Step::FinalX12ImplicitPair(_) => Mode::X12,
            Step::FinalEdifactExact(_) | Step::FinalEdifactAscii(..) => Mode::Edifact,
            Step::FinalBase256ToEnd(n) => {
                if *n >= 250 {
                    big_b256 = true;
                }
                Mode::Base256
            }
        };
        if !modes.contains(&m) {
            modes.push(m);
        }
    }
    let fin = c.steps.last().filter(|s| is_final(s)).map(|s| step_str(s).split(':').next().unwrap().to_string());
    let nontrivial = modes.len() >= 2 || fin.is_some() || big_b256;
    let cls = format!("{:?}/{}/modes{}", c.header, fin.unwrap_or_else(|| if stream.len() > d.pad_start { "clean+pad".into() } else { "clean-full".into() }), modes.len());
    let fnc1_sep = c.steps.iter().filter(|s| matches!(s, Step::Fnc1)).count() as u64;
    Verdict::Pass(Pass::new(cls, nontrivial).count("big_base256", big_b256 as u64).count("fnc1_separator_codewords", fnc1_sep))
}

// ---------------------------------------------------------------------------------------------
// construction of scripts
// ---------------------------------------------------------------------------------------------

#[derive(Debug, Clone)]
struct SegRaw {
    mode: u16,
    len: u16,
    seeds: Vec<u8>,
}

fn seg_raw() -> impl Strategy<Value = SegRaw> {
    (any::<u16>(), any::<u16>(), vec(any::<u8>(), 24)).prop_map(|(mode, len, seeds)| SegRaw { mode, len, seeds })
}

#[derive(Debug, Clone, Copy, PartialEq, Eq)]
enum Charset {
    /// any byte
    Any,
    /// printable Latin-1 only (decode_str without ECI)
    Latin1,
    /// ASCII only (valid UTF-8 byte per byte)
    Ascii7,
}

fn restrict(cs: Charset, b: u8) -> u8 {
    match cs {
        Charset::Any => b,
        Charset::Latin1 => {
            if (0x20..=0x7e).contains(&b) || b >= 0xa0 {
                b
            } else if b < 0x20 {
                b + 0x20
            } else {
                b.wrapping_add(0x21).max(0xa0) // 0x7f..0x9f -> >= 0xa0
            }
        }
        Charset::Ascii7 => b & 0x7f,
    }
}

/// characters for C40 / Text with all shift sets represented
fn c40_char(text: bool, seed: u8, cs: Charset) -> u8 {
    let k = seed % 16;
    let r = seed / 16;
    let base = match k {
        0..=4 => b"0123456789 "[(r as usize * 3 + k as usize) % 11],
        5..=8 => (if text { b'a' } else { b'A' }) + (seed % 26),
        9 => seed % 32,                                                        // shift 1
        10 | 11 => b"!\"#$%&'()*+,-./:;<=>?@[\\]^_"[(seed as usize) % 27], // shift 2
        12 | 13 => (if text { b'A' } else { b'a' }) + (seed % 26),          // shift 3
        14 => [96u8, 123, 124, 125, 126, 127][(r % 6) as usize],              // shift 3 specials
        _ => 128 + (seed.wrapping_mul(37) % 128),                             // upper shift
    };
    restrict(cs, base)
}

const X12_CHARS: &[u8] = b"\r*> 0123456789ABCDEFGHIJKLMNOPQRSTUVWXYZ";

fn build(segs: Vec<SegRaw>, fin: u16, fin_seg: SegRaw, header: Header, cap_sel: u16, big: bool) -> ScriptCase {
    let cs = match header {
        Header::EciUtf8 => Charset::Ascii7,
        Header::Latin1Str | Header::Macro05Str | Header::Macro06Str => Charset::Latin1,
        _ => Charset::Any,
    };
    let mut data: Vec<u8> = Vec::new();
    let mut steps: Vec<Step> = Vec::new();
    let prefix_len0 = match header {
        Header::None | Header::Latin1Str => 0,
        Header::EciUtf8 => 2,
        _ => 1,
    };
    // lengths in codewords of everything after the header, and start offsets of EDIFACT groups
    let mut len_cw = 0usize;
    let mut edifact_group_starts: Vec<usize> = Vec::new();
    // one script in sixteen starts with a well-known byte sequence carried by plain ASCII codewords
    if let Some(first) = segs.first() {
        if first.seeds[23] % 16 == 5 && cs != Charset::Ascii7 {
            let toks: [&[u8]; 6] = [b"\xEF\xBB\xBF", b"\xFF\xFE", b"\xFE\xFF", b"]d2", b"\xEF\xBB", b"\xA0\xEF\xBB\xBF"];
            for b in toks[(first.seeds[22] % 6) as usize] {
                let ch = restrict(cs, *b);
                data.push(ch);
                steps.push(Step::A1);
                len_cw += if ch < 128 { 1 } else { 2 };
            }
        }
    }
    let x12_ok = |b: u8| x12_value(b).is_some();
    let vals = |text: bool, ch: u8| c40_values(text, ch).len();
    for s in &segs {
        match pick(s.mode, 7) {
            0 | 6 => {
                // ASCII run
                let n = 1 + pick(s.len, 8);
                for i in 0..n {
                    let sd = s.seeds[i];
                    if sd % 16 == 7 && cs != Charset::Latin1 && prefix_len0 + len_cw >= 2 {
                        // FNC1 as field separator (not in the first or second position): decoded as GS
                        data.push(29);
                        steps.push(Step::Fnc1);
                        len_cw += 1;
                    } else if sd % 3 == 0 {
                        data.push(b'0' + sd % 10);
                        data.push(b'0' + (sd / 10) % 10);
                        steps.push(Step::A2);
                        len_cw += 1;
                    } else {
                        let ch = restrict(cs, if sd % 3 == 1 { class_byte(sd) } else { sd });
                        data.push(ch);
                        steps.push(Step::A1);
                        len_cw += if ch < 128 { 1 } else { 2 };
                    }
                }
            }
            m @ (1 | 2) => {
                let text = m == 2;
                let n = 1 + pick(s.len, 12);
                let mut chars: Vec<u8> = (0..n).map(|i| c40_char(text, s.seeds[i], cs)).collect();
                let mut v: usize = chars.iter().map(|c| vals(text, *c)).sum();
                let mut k = 0;
                while v % 3 != 0 {
                    chars.push(b"0 5"[k % 3]);
                    v += 1;
                    k += 1;
                }
                len_cw += 1 + 2 * (v / 3) + 1;
                steps.push(Step::Seg(if text { Mode::Text } else { Mode::C40 }, chars.len()));
                data.extend(chars);
            }
            3 => {
                let n = 3 * (1 + pick(s.len, 4));
                let chars: Vec<u8> = (0..n).map(|i| x12_char(cs, s.seeds[i])).collect();
                debug_assert!(chars.iter().all(|c| x12_ok(*c)));
                len_cw += 1 + 2 * (n / 3) + 1;
                steps.push(Step::Seg(Mode::X12, n));
                data.extend(chars);
            }
            4 => {
                let n = 1 + pick(s.len, 11);
                let chars: Vec<u8> = (0..n).map(|i| 32 + s.seeds[i] % 63).collect();
                let start = len_cw + 1; // after the latch
                // n chars + unlatch value: groups of 4 values = 3 codewords
                let nvals = n + 1;
                for g in 0..(nvals + 3) / 4 {
                    edifact_group_starts.push(start + 3 * g);
                }
                len_cw += 1 + (nvals * 6 + 7) / 8;
                steps.push(Step::Seg(Mode::Edifact, n));
                data.extend(chars);
            }
            _ => {
                let n = if big && s.len % 5 == 0 { [248, 249, 250, 251, 250 + pick(s.len, 400), 249, 250][(s.len as usize / 5) % 7] } else { 1 + pick(s.len, 14) };
                let chars: Vec<u8> = (0..n).map(|i| restrict(cs, s.seeds[i % 24].wrapping_mul((i / 24) as u8 * 2 + 1).wrapping_add((i / 24) as u8))).collect();
                len_cw += 1 + if n < 250 { 1 } else { 2 } + n;
                steps.push(Step::Seg(Mode::Base256, n));
                data.extend(chars);
            }
        }
    }
    // final form
    let prefix_len = match header {
        Header::None | Header::Latin1Str => 0,
        Header::EciUtf8 => 2,
        _ => 1,
    };
    let s = &fin_seg;
    let mut exact = false; // stream must end exactly at the capacity
    let mut slack_max = 0usize; // or: capacity - length must be <= slack_max (EDIFACT ASCII tail)
    match pick(fin, 16) {
        0..=5 => {} // clean end + pad
        f @ (6 | 7 | 8 | 9) => {
            let text = s.mode % 2 == 1;
            let m = if text { Mode::Text } else { Mode::C40 };
            let n = 1 + pick(s.len, 9);
            let mut chars: Vec<u8> = (0..n).map(|i| c40_char(text, s.seeds[i], cs)).collect();
            let mut v: usize = chars.iter().map(|c| vals(text, *c)).sum();
            let want = if f == 7 { 2 } else { 0 };
            let mut k = 0;
            while v % 3 != want {
                chars.push(b"7 2"[k % 3]);
                v += 1;
                k += 1;
            }
            match f {
                6 => {
                    len_cw += 1 + 2 * (v / 3);
                    steps.push(Step::FinalC40Exact(m, chars.len()));
                }
                7 => {
                    len_cw += 1 + 2 * ((v + 1) / 3);
                    steps.push(Step::FinalC40Pad(m, chars.len()));
                }
                8 => {
                    chars.push(low7(cs, s.seeds[20]));
                    len_cw += 1 + 2 * (v / 3) + 2;
                    steps.push(Step::FinalC40UnlatchAscii(m, chars.len()));
                }
                _ if s.seeds[18] % 3 == 0 => {
                    // the one ASCII codeword is a digit pair
                    chars.push(b'0' + s.seeds[21] % 10);
                    chars.push(b'0' + s.seeds[22] % 10);
                    len_cw += 1 + 2 * (v / 3) + 1;
                    steps.push(Step::FinalC40ImplicitPair(m, chars.len()));
                }
                _ => {
                    chars.push(low7(cs, s.seeds[21]));
                    len_cw += 1 + 2 * (v / 3) + 1;
                    steps.push(Step::FinalC40ImplicitAscii(m, chars.len()));
                }
            }
            data.extend(chars);
            exact = true;
        }
        f @ (10 | 11) => {
            let n = 3 * (1 + pick(s.len, 4));
            let mut chars: Vec<u8> = (0..n).map(|i| x12_char(cs, s.seeds[i])).collect();
            if f == 10 {
                len_cw += 1 + 2 * (n / 3);
                steps.push(Step::FinalX12Exact(n));
            } else if s.seeds[18] % 3 == 0 {
                chars.push(b'0' + s.seeds[21] % 10);
                chars.push(b'0' + s.seeds[22] % 10);
                len_cw += 1 + 2 * (n / 3) + 1;
                steps.push(Step::FinalX12ImplicitPair(n + 2));
            } else {
                chars.push(low7(cs, s.seeds[22]));
                len_cw += 1 + 2 * (n / 3) + 1;
                steps.push(Step::FinalX12ImplicitAscii(n + 1));
            }
            data.extend(chars);
            exact = true;
        }
        12 => {
            let n = 4 * (1 + pick(s.len, 3));
            let chars: Vec<u8> = (0..n).map(|i| 32 + s.seeds[i] % 63).collect();
            let start = len_cw + 1;
            for g in 0..n / 4 {
                edifact_group_starts.push(start + 3 * g);
            }
            len_cw += 1 + 3 * (n / 4);
            steps.push(Step::FinalEdifactExact(n));
            data.extend(chars);
            exact = true;
        }
        13 => {
            let n = 4 * (1 + pick(s.len, 3));
            let mut chars: Vec<u8> = (0..n).map(|i| 32 + s.seeds[i] % 63).collect();
            let start = len_cw + 1;
            for g in 0..n / 4 {
                edifact_group_starts.push(start + 3 * g);
            }
            len_cw += 1 + 3 * (n / 4);
            // ASCII tail in at most two codewords
            let tail: Vec<u8> = match s.seeds[23] % 6 {
                0 => vec![low7(cs, s.seeds[20])],
                1 => vec![low7(cs, s.seeds[20]), low7(cs, s.seeds[21])],
                2 => vec![b'0' + s.seeds[20] % 10, b'0' + s.seeds[21] % 10],
                3 => vec![b'0' + s.seeds[20] % 10, b'0' + s.seeds[21] % 10, b'0' + s.seeds[22] % 10, b'0' + s.seeds[19] % 10],
                4 => vec![restrict(cs, s.seeds[20] | 0x80)],
                _ => vec![b'0' + s.seeds[20] % 10, b'0' + s.seeds[21] % 10, restrict(cs, b'A' + s.seeds[22] % 26)],
            };
            let t = refimpl::codec::ascii_greedy(&tail);
            debug_assert!(t <= 2);
            steps.push(Step::FinalEdifactAscii(n, tail.len()));
            chars.extend(tail);
            data.extend(chars);
            len_cw += t;
            // the symbol must end at most (2 - t) codewords after the tail
            exact = t == 2;
            slack_max = 2 - t;
        }
        _ => {
            let n = if big && s.len % 7 == 0 { [248, 249, 250, 251, 250 + pick(s.len, 300), 249, 250][(s.len as usize / 7) % 7] } else { 1 + pick(s.len, 14) };
            let chars: Vec<u8> = (0..n).map(|i| restrict(cs, s.seeds[i % 24].wrapping_add((i / 24) as u8 * 7))).collect();
            len_cw += 2 + n;
            steps.push(Step::FinalBase256ToEnd(n));
            data.extend(chars);
            exact = true;
        }
    }
    // choose the capacity; forms that must end at the symbol boundary get an ASCII filler in
    // front (after the header) so that the total length is a real capacity
    let caps = capacities();
    let total = prefix_len + len_cw;
    let constrained = exact || slack_max > 0;
    let cap = if constrained {
        let lo = total;
        let idx = caps.iter().position(|c| *c >= lo).unwrap_or(caps.len() - 1);
        // take one of the next few capacities
        let j = (idx + pick(cap_sel, 3)).min(caps.len() - 1);
        let cap = caps[j];
        let slack = if slack_max > 0 { pick(cap_sel.rotate_left(3), slack_max + 1) } else { 0 };
        let fill = cap.saturating_sub(lo + slack);
        // filler: single ASCII characters at the very start
        let filler: Vec<u8> = (0..fill).map(|i| restrict(cs, b'a' + (i % 26) as u8)).collect();
        let mut d = filler.clone();
        d.extend(data);
        data = d;
        let mut st: Vec<Step> = vec![Step::A1; fill];
        st.extend(steps);
        steps = st;
        for g in edifact_group_starts.iter_mut() {
            *g += fill;
        }
        cap
    } else {
        // every EDIFACT group needs >= 3 codewords left in the symbol
        let need = edifact_group_starts.iter().map(|g| prefix_len + g + 3).max().unwrap_or(0).max(total);
        let idx = caps.iter().position(|c| *c >= need).unwrap_or(caps.len() - 1);
        let j = (idx + pick(cap_sel, 4)).min(caps.len() - 1);
        caps[j]
    };
    ScriptCase { data, steps, header, cap }
}

/// a character below 128 (one ASCII codeword) that respects the charset restriction
fn low7(cs: Charset, b: u8) -> u8 {
    let x = b & 0x7f;
    match cs {
        Charset::Latin1 => {
            if x < 0x20 {
                x + 0x20
            } else if x == 0x7f {
                0x7e
            } else {
                x
            }
        }
        _ => x,
    }
}

fn x12_char(cs: Charset, seed: u8) -> u8 {
    // CR is a control character: not printable Latin-1
    if cs == Charset::Latin1 {
        X12_CHARS[1 + seed as usize % (X12_CHARS.len() - 1)]
    } else {
        X12_CHARS[seed as usize % X12_CHARS.len()]
    }
}

fn class_byte(sd: u8) -> u8 {
    match sd % 5 {
        0 => b'A' + sd % 26,
        1 => b'a' + sd % 26,
        2 => b' ',
        3 => 128 + sd % 128,
        _ => sd % 128,
    }
}

/// libFuzzer entry: bytes -> the raw values the proptest strategy draws -> the same `build`
pub fn from_fuzz_bytes(b: &[u8]) -> ScriptCase {
    let at = |i: usize| b.get(i).copied().unwrap_or(0);
    let u16at = |i: usize| at(i) as u16 | (at(i + 1) as u16) << 8;
    let hdr = u16at(0);
    let fin = u16at(2);
    let cap_sel = u16at(4);
    let nseg = (at(6) % 6) as usize;
    let big = at(7) & 1 == 1;
    let seg = |k: usize| {
        let o = 8 + 28 * k;
        SegRaw { mode: u16at(o), len: u16at(o + 2), seeds: (0..24).map(|i| at(o + 4 + i)).collect() }
    };
    let fin_seg = seg(0);
    let segs = (0..nseg).map(|k| seg(k + 1)).collect();
    let header = [Header::None, Header::None, Header::None, Header::Macro05, Header::Macro06, Header::Fnc1, Header::EciUtf8, Header::Latin1Str, Header::Macro05Str, Header::Macro06Str][pick(hdr, 10)];
    build(segs, fin, fin_seg, header, cap_sel, big)
}

fn g_script(big: bool) -> BoxedStrategy<ScriptCase> {
    (vec(seg_raw(), 0..=5), any::<u16>(), seg_raw(), any::<u16>(), any::<u16>())
        .prop_map(move |(segs, fin, fin_seg, hdr, cap_sel)| {
            let header = [Header::None, Header::None, Header::None, Header::Macro05, Header::Macro06, Header::Fnc1, Header::EciUtf8, Header::Latin1Str, Header::Macro05Str, Header::Macro06Str][pick(hdr, 10)];
            build(segs, fin, fin_seg, header, cap_sel, big)
        })
        .boxed()
}

fn run(ctx: &Arc<Ctx>) {
    // the repository's own literal streams (decoder tests) as fixed cases are covered by the
    // repository; here: fixed scripts for each final form on a tiny input
    ctx.run_generated("scripts", "script", ctx.cases(4_000_000, 60_000_000), || g_script(false), check);
    ctx.run_generated("scripts-big-base256", "script", ctx.cases(150_000, 3_000_000), || g_script(true), check);
}

fn replay(_ctx: &Ctx, kind: &str, case: &Value) -> Option<Verdict> {
    match kind {
        "script" => Some(check(&ScriptCase::from_json(case)?)),
        _ => None,
    }
}
