//! C14 — string API round trip with automatic ECI selection.

use super::Prop;
use crate::cases::*;
use crate::core::*;
use crate::gens::*;
use datamatrix::data::{latin1_to_utf8, utf8_to_latin1};
use datamatrix::{DataMatrix, SymbolList};
use proptest::collection::vec;
use proptest::prelude::*;
use refimpl::charset::is_printable_byte;
use refimpl::codec::ref_decode;
use serde_json::{json, Value};
use std::sync::Arc;

pub static PROP: Prop = Prop {
    id: "C14",
    run,
    replay,
    rule: "strings from strata (printable Latin-1 only / with C0-C1 controls / BMP / astral / mixed / macro 05-06 envelopes around any of those, 0-300 characters) through DataMatrix::encode_str -> data_codewords -> data::decode_str; oracle = same string back; via the reference decoder: printable-Latin-1 strings carry no ECI codeword and their Latin-1 bytes, every other string exactly one ECI 26 designator in front of the data (after a macro codeword) and its UTF-8 bytes; enumerated: all 256 bytes through latin1_to_utf8 and all 1,112,064 scalar values through utf8_to_latin1 against ISO-8859-1; non-trivial = the string forces the ECI path or is a macro envelope; distinct by string",
    assumptions: &["'printable ISO-8859-1' = U+0020-U+007E and U+00A0-U+00FF (crate documentation)", "for non-printable input the helpers may return None or the identity, never a different character"],
    extra: super::no_extra,
    fuzz_runs: 200000,
};

#[derive(Debug, Clone)]
pub struct StrCase {
    pub s: String,
    /// None: `DataMatrix::encode_str(s, SymbolList::default())`; Some((list, modes, macros, fnc1 start)): the builder's `encode_str`
    pub cfg: Option<(u64, u8, bool, bool)>,
    pub stratum: &'static str,
}

impl Case for StrCase {
    fn to_json(&self) -> Value {
        match self.cfg {
            None => json!({"utf8": hex(self.s.as_bytes()), "text": self.s.chars().take(60).collect::<String>()}),
            Some((list, modes, macros, fnc1)) => json!({"utf8": hex(self.s.as_bytes()), "text": self.s.chars().take(60).collect::<String>(), "symbols": mask_names(list), "modes": mode_names(modes), "macros": macros, "fnc1": fnc1}),
        }
    }
    fn fingerprint(&self) -> u64 {
        fnv64(self.s.as_bytes()) ^ self.cfg.map_or(0, |(l, m, x, f)| splitmix(l ^ (m as u64) << 50 ^ (x as u64) << 60 ^ (f as u64) << 61))
    }
}

impl StrCase {
    pub fn from_json(case: &Value) -> Option<Self> {
        let s = String::from_utf8(unhex(case["utf8"].as_str()?)?).ok()?;
        let cfg = match case.get("symbols") {
            Some(l) if !l.is_null() => Some((names_to_mask(l)?, names_to_modes(&case["modes"])?, case["macros"].as_bool()?, case["fnc1"].as_bool().unwrap_or(false))),
            _ => None,
        };
        Some(StrCase { s, cfg, stratum: "replay" })
    }
}

fn printable_latin1(s: &str) -> bool {
    s.chars().all(|c| (c as u32) < 256 && is_printable_byte(c as u32 as u8))
}

pub fn check(c: &StrCase) -> Verdict {
    let enc = || match c.cfg {
        None => DataMatrix::encode_str(&c.s, SymbolList::default()),
        Some((list, modes, macros, fnc1)) => {
            // the shared builder construction (entry point and setter order vary with the case)
            EncCase { data: c.s.as_bytes().to_vec(), list, modes, macros, fnc1, eci: None, stratum: "str" }.builder().encode_str(&c.s)
        }
    };
    let dm = match guard(enc) {
        Ok(Ok(dm)) => dm,
        Ok(Err(_)) => return Verdict::Pass(Pass::new(format!("{}/refused", c.stratum), false).count("refused", 1)),
        Err(_) => return Verdict::Pass(Pass::new(format!("{}/encoder-panic(C11)", c.stratum), false).count("encoder_panics", 1)),
    };
    // DataMatrix::encode_str(text, list) is the builder with that list and default settings
    if let Some((list, 63, true, false)) = c.cfg {
        match guard(|| DataMatrix::encode_str(&c.s, mask_to_list(list))) {
            Ok(Ok(w)) => {
                if w.size != dm.size || w.codewords() != dm.codewords() {
                    return fail(format!("DataMatrix::encode_str with list {} returns {:?}, the builder with the same settings {:?} (s = {:?})", mask_names(list), w.size, dm.size, c.s));
                }
            }
            Ok(Err(e)) => return fail(format!("DataMatrix::encode_str refuses ({:?}) what the builder with the same settings encodes (s = {:?})", e, c.s)),
            Err(_) => {}
        }
    }
    let cw = dm.data_codewords();
    match guard(|| datamatrix::data::decode_str(cw)) {
        Ok(Ok(out)) if out == c.s => {}
        Ok(Ok(out)) => {
            let i = out.chars().zip(c.s.chars()).position(|(a, b)| a != b);
            return fail(format!("decode_str(encode_str(s)) returns a different string (first difference at character {:?}: {:?} vs {:?}); s = {:?}, codewords {:?}", i, out.chars().nth(i.unwrap_or(0)), c.s.chars().nth(i.unwrap_or(0)), c.s, cw));
        }
        Ok(Err(e)) => return fail(format!("decode_str rejects the codewords of encode_str: {:?} (s = {:?}, codewords {:?})", e, c.s, cw)),
        Err(p) => return fail(format!("decode_str panicked on the codewords of encode_str: {} (s = {:?})", p, c.s)),
    }
    let d = match ref_decode(cw) {
        Ok(d) => d,
        Err(e) => return fail(format!("reference decoder rejects the stream of encode_str: {} (s = {:?}, codewords {:?})", e.0, c.s, cw)),
    };
    let latin = printable_latin1(&c.s);
    if latin {
        if !d.ecis.is_empty() || cw.contains(&241) && d.ecis.is_empty() && false {
            return fail(format!("string of printable ISO-8859-1 characters is encoded with an ECI designator {:?} (s = {:?})", d.ecis, c.s));
        }
        let bytes: Vec<u8> = c.s.chars().map(|ch| ch as u32 as u8).collect();
        if d.message() != bytes {
            return fail(format!("printable ISO-8859-1 string is not encoded byte-for-byte as Latin-1: stream carries {:?}, expected {:?}", show(&d.message()), show(&bytes)));
        }
    } else {
        if d.ecis != vec![(0usize, 26u32)] {
            return fail(format!("string with characters outside printable ISO-8859-1 must carry exactly one UTF-8 ECI (26) in front of the data; stream has {:?} (s = {:?}, codewords {:?})", d.ecis, c.s, &cw[..cw.len().min(12)]));
        }
        if d.message() != c.s.as_bytes() {
            return fail(format!("stream carries {:?}, expected the UTF-8 bytes {:?}", show(&d.message()), show(c.s.as_bytes())));
        }
        // designator position: first codeword, or second after a macro codeword
        let pos = if d.macro_cw.is_some() || d.fnc1_first { 1 } else { 0 };
        if cw.get(pos) != Some(&241) || cw.get(pos + 1) != Some(&27) {
            return fail(format!("UTF-8 ECI designator expected at codeword {} (stream starts {:?})", pos, &cw[..cw.len().min(6)]));
        }
    }
    let macro_env = d.macro_cw.is_some();
    Verdict::Pass(Pass::new(format!("{}/{}{}{}", c.stratum, if latin { "latin1" } else { "utf8-eci" }, if macro_env { "/macro" } else { "" }, if c.cfg.is_some() { "/builder-config" } else { "" }), !latin || macro_env))
}

/// code points at the edges of the UTF-8 length classes, of the Latin-1 / printable ranges, and
/// the ones decoders like to treat specially (BOM, replacement character, non-characters, line
/// and paragraph separators)
pub const SPECIAL_CHARS: [u32; 40] = [
    0x00, 0x01, 0x09, 0x0a, 0x0d, 0x1d, 0x1e, 0x1f, 0x20, 0x7e, 0x7f, 0x80, 0x9f, 0xa0, 0xad, 0xd7, 0xf7, 0xff, 0x100, 0x131, 0x7ff, 0x800, 0xfff, 0x1000, 0x2028, 0x2029,
    0xd7ff, 0xe000, 0xfdd0, 0xfeff, 0xfffd, 0xfffe, 0xffff, 0x10000, 0x1f600, 0x1fffe, 0x1ffff, 0xe0000, 0x10fffe, 0x10ffff,
];

/// every scalar value of a block as one-character string, at the start / alone / at the end of a
/// short string and as macro body
#[derive(Debug, Clone)]
pub struct ScalarStrings {
    pub start: u32,
    pub len: u32,
    pub step: u32,
}

impl Case for ScalarStrings {
    fn to_json(&self) -> Value {
        json!({"scalar_start": self.start, "len": self.len, "step": self.step})
    }
}

fn check_scalar_strings(c: &ScalarStrings) -> Verdict {
    let mut n = 0u64;
    let mut cp = c.start;
    while cp < c.start + c.len {
        if let Some(ch) = char::from_u32(cp) {
            let forms = [format!("{}", ch), format!("{}ab", ch), format!("A1{}", ch), format!("[)>\u{1e}05\u{1d}{}\u{1e}\u{04}", ch)];
            // all four forms for the special code points and every 64th one, the bare character otherwise
            let k = if SPECIAL_CHARS.contains(&cp) || cp % 64 == 0 { 4 } else { 1 };
            for f in forms.into_iter().take(k) {
                n += 1;
                match check(&StrCase { s: f, cfg: None, stratum: "scalar" }) {
                    Verdict::Pass(_) => {}
                    other => return other,
                }
            }
        }
        cp += c.step;
    }
    Verdict::Pass(Pass::new("scalar-strings", true).count("scalar_strings", n))
}

fn g_char(kind: usize) -> BoxedStrategy<char> {
    match kind {
        5 => (0usize..SPECIAL_CHARS.len()).prop_map(|i| char::from_u32(SPECIAL_CHARS[i]).unwrap()).boxed(),
        0 => prop_oneof![(0x20u32..0x7f), (0xa0u32..0x100)].prop_map(|c| char::from_u32(c).unwrap()).boxed(),
        1 => prop_oneof![(0u32..0x20), (0x7fu32..0xa0), (0x20u32..0x7f)].prop_map(|c| char::from_u32(c).unwrap()).boxed(),
        2 => prop_oneof![(0x100u32..0x800), (0x800u32..0xd800), (0xe000u32..0x10000)].prop_map(|c| char::from_u32(c).unwrap_or('\u{fffd}')).boxed(),
        3 => (0x10000u32..0x110000).prop_map(|c| char::from_u32(c).unwrap_or('\u{1f600}')).boxed(),
        _ => prop_oneof![4 => (0x20u32..0x7f), 2 => (0xa0u32..0x100), 1 => (0u32..0x20), 1 => (0x100u32..0x3000), 1 => (0x1f300u32..0x1f700)].prop_map(|c| char::from_u32(c).unwrap_or('?')).boxed(),
    }
}

fn g_body(max: usize) -> BoxedStrategy<(String, &'static str)> {
    prop_oneof![
        4 => vec(g_char(0), 0..max).prop_map(|v| (v.into_iter().collect(), "printable-latin1")),
        2 => vec(g_char(1), 1..max).prop_map(|v| (v.into_iter().collect(), "controls")),
        2 => vec(g_char(2), 1..max / 2).prop_map(|v| (v.into_iter().collect(), "bmp")),
        1 => vec(g_char(3), 1..max / 4).prop_map(|v| (v.into_iter().collect(), "astral")),
        3 => vec(g_char(4), 0..max).prop_map(|v| (v.into_iter().collect(), "mixed")),
        // boundary / special code points, alone or around ordinary text
        2 => (vec(g_char(5), 1..4), vec(g_char(0), 0..8), any::<u8>()).prop_map(|(sp, txt, k)| {
            let sp: String = sp.into_iter().collect();
            let txt: String = txt.into_iter().collect();
            (match k % 3 { 0 => format!("{}{}", sp, txt), 1 => format!("{}{}", txt, sp), _ => { let (a, b) = txt.split_at(txt.char_indices().nth(txt.chars().count() / 2).map_or(0, |x| x.0)); format!("{}{}{}", a, sp, b) } }, "special-code-points")
        }),
        // digits / upper case runs (trigger C40, X12, EDIFACT end-of-data handling behind the ECI prefix)
        2 => g_bytes_len(1, 6, 8, 40).prop_map(|b| (b.into_iter().map(|x| (x & 0x7f) as char).collect(), "ascii-class-runs")),
    ]
    .boxed()
}

fn g_str() -> BoxedStrategy<StrCase> {
    // a third of the strings go through the builder with a generated symbol list / mode set / macro flag
    (g_str_plain(), any::<u8>(), g_list(), g_modes(), any::<bool>(), any::<u8>())
        .prop_map(|(mut c, k, list, modes, macros, f)| {
            if k % 3 == 0 {
                let mask = match list {
                    ListSpec::Default => default_mask(),
                    ListSpec::All => ALL_MASK,
                    ListSpec::Mask(m) => m,
                    // fitted around the symbol the default configuration picks for the UTF-8 / Latin-1 bytes
                    ListSpec::Fit(j) => {
                        let bytes = datamatrix::data::utf8_to_latin1(&c.s).unwrap_or_else(|| c.s.as_bytes().to_vec());
                        resolve_fit(&bytes, modes, macros, false, j)
                    }
                };
                c.cfg = Some((mask, modes, macros, f % 4 == 0));
            }
            c
        })
        .boxed()
}

fn g_str_plain() -> BoxedStrategy<StrCase> {
    prop_oneof![
        6 => g_body(40).prop_map(|(s, st)| StrCase { s, cfg: None, stratum: st }),
        2 => g_body(300).prop_map(|(s, st)| StrCase { s, cfg: None, stratum: st }),
        4 => (g_body(30), any::<bool>(), any::<u8>()).prop_map(|((body, _), six, k)| {
            let head = if six { "[)>\u{1e}06\u{1d}" } else { "[)>\u{1e}05\u{1d}" };
            let (s, st) = match k % 5 {
                0 | 1 | 2 => (format!("{}{}\u{1e}\u{04}", head, body), "macro-full"),
                3 => (format!("{}{}", head, body), "macro-head-only"),
                _ => (format!("{}\u{1e}\u{04}", body), "macro-trail-only"),
            };
            StrCase { s, cfg: None, stratum: st }
        }),
    ]
    .boxed()
}

// ---------------------------------------------------------------------------------------------
// helpers: exhaustive
// ---------------------------------------------------------------------------------------------

#[derive(Debug, Clone)]
pub struct ScalarBlock {
    pub start: u32,
    pub len: u32,
}

impl Case for ScalarBlock {
    fn to_json(&self) -> Value {
        json!({"scalar_start": self.start, "len": self.len})
    }
}

fn check_scalars(c: &ScalarBlock) -> Verdict {
    let mut n = 0u64;
    for cp in c.start..c.start + c.len {
        let Some(ch) = char::from_u32(cp) else { continue };
        n += 1;
        let s = ch.to_string();
        let r = match guard(|| utf8_to_latin1(&s)) {
            Ok(r) => r,
            Err(p) => return fail(format!("utf8_to_latin1 panicked for U+{:04X}: {}", cp, p)),
        };
        let printable = cp < 256 && is_printable_byte(cp as u8);
        if printable {
            if r != Some(vec![cp as u8]) {
                return fail(format!("utf8_to_latin1(U+{:04X}) = {:?}, ISO-8859-1 says byte 0x{:02X}", cp, r, cp));
            }
        } else if let Some(v) = &r {
            // None or the identity
            if !(cp < 256 && *v == vec![cp as u8]) {
                return fail(format!("utf8_to_latin1(U+{:04X}) = {:?}: not a printable ISO-8859-1 character, must be None (or the identity)", cp, v));
            }
        }
    }
    Verdict::Pass(Pass::new("scalars", c.start < 0x400).count("scalar_values_checked", n))
}

#[derive(Debug, Clone)]
pub struct ByteCase(pub u8);
impl Case for ByteCase {
    fn to_json(&self) -> Value {
        json!({"byte": self.0})
    }
}

fn check_byte(c: &ByteCase) -> Verdict {
    let b = c.0;
    let r = match guard(|| latin1_to_utf8(&[b])) {
        Ok(r) => r,
        Err(p) => return fail(format!("latin1_to_utf8 panicked for byte 0x{:02X}: {}", b, p)),
    };
    let want: String = (b as char).to_string();
    if is_printable_byte(b) {
        if r.as_deref() != Some(want.as_str()) {
            return fail(format!("latin1_to_utf8([0x{:02X}]) = {:?}, ISO-8859-1 says U+{:04X}", b, r, b));
        }
        // inverse
        match guard(|| utf8_to_latin1(&want)) {
            Ok(Some(v)) if v == vec![b] => {}
            other => return fail(format!("utf8_to_latin1(latin1_to_utf8([0x{:02X}])) = {:?}", b, other)),
        }
    } else if let Some(s) = &r {
        if *s != want {
            return fail(format!("latin1_to_utf8([0x{:02X}]) = {:?} for a non-printable byte: must be None (or the identity)", b, s));
        }
    }
    // multi byte input: concatenation
    let all: Vec<u8> = (0x20..=0x7e).chain(0xa0..=0xff).collect();
    if b == 0x20 {
        let want_all: String = all.iter().map(|x| *x as char).collect();
        match guard(|| latin1_to_utf8(&all)) {
            Ok(Some(s)) if s == want_all => {}
            other => return fail(format!("latin1_to_utf8(all printable bytes) = {:?}", other.map(|o| o.map(|s| s.len()))),),
        }
        match guard(|| utf8_to_latin1(&want_all)) {
            Ok(Some(v)) if v == all => {}
            other => return fail(format!("utf8_to_latin1(all printable characters) = {:?}", other.map(|o| o.map(|s| s.len())))),
        }
    }
    Verdict::Pass(Pass::new("latin1-bytes", true))
}

fn run(ctx: &Arc<Ctx>) {
    ctx.run_enumerated("latin1-bytes", "byte", (0..=255u8).map(ByteCase).collect(), Some("all 256 byte values through latin1_to_utf8 (and back)"), check_byte);
    let blocks: Vec<ScalarBlock> = (0..0x110000u32).step_by(0x400).map(|s| ScalarBlock { start: s, len: 0x400 }).collect();
    ctx.run_enumerated("scalars", "scalars", blocks, Some("all Unicode scalar values through utf8_to_latin1"), check_scalars);
    // fixed strings
    let fixed: Vec<StrCase> = ["", "A", "Hello, World!", "\u{1f978}", "[)>\u{1e}05\u{1d}\u{1f918}\u{1e}\u{04}", "\u{e4}\u{f6}\u{fc}", "a\tb", "\u{80}", "\u{a0}\u{ff}", "\u{7f}"]
        .iter()
        .map(|s| StrCase { s: s.to_string(), cfg: None, stratum: "fixed" })
        .collect();
    ctx.run_enumerated("fixed", "str", fixed, None, check);
    // every scalar value as a string of its own: complete for the BMP in both tiers, every 16th astral
    // code point in quick and all of them in thorough
    let mut sblocks: Vec<ScalarStrings> = (0..0x10000u32).step_by(0x100).map(|s| ScalarStrings { start: s, len: 0x100, step: 1 }).collect();
    let astral_step = if ctx.quick() { 16 } else { 1 };
    sblocks.extend((0x10000..0x110000u32).step_by(0x1000).map(|s| ScalarStrings { start: s, len: 0x1000, step: astral_step }));
    ctx.run_enumerated("scalar-strings", "scalarstr", sblocks, if ctx.quick() { Some("every BMP scalar value (and every 16th astral one) as a one-character string through encode_str / decode_str; special code points also at the start / end of text and as macro body") } else { Some("every Unicode scalar value as a one-character string through encode_str / decode_str; special code points also at the start / end of text and as macro body") }, check_scalar_strings);
    ctx.run_generated("strings", "str", ctx.cases(800_000, 8_000_000), g_str, check);
}

fn replay(_ctx: &Ctx, kind: &str, case: &Value) -> Option<Verdict> {
    match kind {
        "str" => Some(check(&StrCase::from_json(case)?)),
        "scalarstr" => Some(check_scalar_strings(&ScalarStrings { start: case["scalar_start"].as_u64()? as u32, len: case["len"].as_u64()? as u32, step: case["step"].as_u64()? as u32 })),
        "byte" => Some(check_byte(&ByteCase(case["byte"].as_u64()? as u8))),
        "scalars" => Some(check_scalars(&ScalarBlock { start: case["scalar_start"].as_u64()? as u32, len: case["len"].as_u64()? as u32 })),
        _ => None,
    }
}
