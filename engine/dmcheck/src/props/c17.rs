//! C17 — the vector path renders exactly the dark modules; pixel iterator; Unicode rendering.

use super::c05::BitmapCase;
use super::Prop;
use crate::cases::*;
use crate::core::*;
use crate::gens::*;
use datamatrix::placement::{Bitmap, PathSegment};
use datamatrix::DataMatrix;
use proptest::collection::vec;
use proptest::prelude::*;
use refimpl::raster::{self, Seg};
use serde_json::Value;
use std::sync::Arc;

pub static PROP: Prop = Prop {
    id: "C17",
    run,
    replay,
    rule: "bitmaps = (a) encoded symbols of all 48 sizes with generated messages, (b) arbitrary w x h bool arrays with a dark top-left module (w, h <= 64 quick / <= 177 thorough, density 5-95 %), (c) structured shapes from a small combinator (filled rectangles, rings, checkerboards, diagonal staircases, nested islands, inverted regions); oracle = independent even-odd rasteriser with SVG/PDF semantics (segments axis-parallel and non-zero, Move only after Close and relative to the start of the sub-path just closed, closing edge axis-parallel, all coordinates inside [0,w]x[0,h], last sub-path closed, fill equals the bitmap exactly), pixels() equals the row-major list of dark coordinates, unicode() decodes back to the bitmap inside a one-module light border; non-trivial = the dark region has >= 2 connected components OR >= 1 hole OR a diagonal contact (flood fill in the harness); distinct by bitmap",
    assumptions: &["path() is only specified for bitmaps with a dark top-left module (start point is the top-left corner); an all-light bitmap must give an empty path", "a Close reached at the sub-path's start point (zero-length closing line) is accepted, it renders identically"],
    extra: super::no_extra,
    fuzz_runs: 200000,
};

fn convert(p: &[PathSegment]) -> Vec<Seg> {
    p.iter()
        .map(|s| match s {
            PathSegment::Move(dx, dy) => Seg::Move(*dx as i32, *dy as i32),
            PathSegment::Horizontal(d) => Seg::Horizontal(*d as i32),
            PathSegment::Vertical(d) => Seg::Vertical(*d as i32),
            PathSegment::Close => Seg::Close,
        })
        .collect()
}

pub fn check(c: &BitmapCase) -> Verdict {
    let w = c.width;
    if w == 0 || c.bits.len() % w != 0 {
        return Verdict::EngineBug("bitmap precondition (width > 0 dividing the length)".into());
    }
    let h = c.bits.len() / w;
    let bm = Bitmap::new(c.bits.iter().copied(), w);
    let dark_any = c.bits.iter().any(|b| *b);
    // ---- path ----
    let path = match guard(|| bm.path()) {
        Ok(p) => p,
        Err(p) => return fail(format!("path() panicked: {} ({}x{} bitmap)", p, w, h)),
    };
    if !dark_any {
        if !path.is_empty() {
            return fail(format!("path() of an all-light {}x{} bitmap is not empty: {:?}", w, h, path));
        }
    } else if c.bits[0] {
        let segs = convert(&path);
        match raster::fill_even_odd(&segs, w, h) {
            Err(e) => return fail(format!("path() of a {}x{} bitmap is not a well-formed relative path: {:?}; path = {:?}", w, h, e, &path[..path.len().min(40)])),
            Ok(fill) => {
                if let Some(i) = (0..fill.len()).find(|i| fill[*i] != c.bits[*i]) {
                    return fail(format!("even-odd fill of path() differs from the bitmap at module (x {}, y {}): filled = {}, bitmap = {} ({}x{}, {} segments)", i % w, i / w, fill[i], c.bits[i], w, h, path.len()));
                }
            }
        }
        if path.first().map_or(false, |s| matches!(s, PathSegment::Move(..))) {
            return fail("path() starts with a Move although the first sub-path starts implicitly at the top-left corner".to_string());
        }
    }
    // ---- pixels ----
    let px: Vec<(usize, usize)> = match guard(|| bm.pixels().collect()) {
        Ok(p) => p,
        Err(p) => return fail(format!("pixels() panicked: {}", p)),
    };
    let want: Vec<(usize, usize)> = (0..c.bits.len()).filter(|i| c.bits[*i]).map(|i| (i % w, i / w)).collect();
    if px != want {
        let i = (0..px.len().min(want.len())).find(|i| px[*i] != want[*i]);
        return fail(format!("pixels() differs from the row-major list of dark modules ({} vs {} entries, first difference at index {:?})", px.len(), want.len(), i));
    }
    // ---- unicode ----
    let u = match guard(|| bm.unicode()) {
        Ok(u) => u,
        Err(p) => return fail(format!("unicode() panicked: {}", p)),
    };
    match raster::decode_unicode(&u) {
        Err(e) => return fail(format!("unicode() output is malformed: {}", e)),
        Ok((uw, rows)) => {
            let lines = (h + 2 + 1) / 2;
            if uw != w + 2 || rows.len() != 2 * lines {
                return fail(format!("unicode() renders {} columns x {} half-rows, expected {} x {} (bitmap {}x{} plus a one-module border)", uw, rows.len(), w + 2, 2 * lines, w, h));
            }
            for (y, row) in rows.iter().enumerate() {
                for (x, v) in row.iter().enumerate() {
                    let inside = y >= 1 && y <= h && x >= 1 && x <= w;
                    let want = inside && c.bits[(y - 1) * w + (x - 1)];
                    if *v != want {
                        return fail(format!("unicode() shows {} at (x {}, y {}) of the bordered rendering, expected {} ({}x{} bitmap)", v, x, y, want, w, h));
                    }
                }
            }
        }
    }
    let (comps, holes, diag) = raster::topology(&c.bits, w, h);
    let nontrivial = comps >= 2 || holes >= 1 || diag >= 1;
    Verdict::Pass(
        Pass::new(format!("{}/{}{}{}", c.stratum, if comps >= 2 { "multi-component" } else { "one-component" }, if holes >= 1 { "/holes" } else { "" }, if diag >= 1 { "/diagonal-contacts" } else { "" }), nontrivial)
            .max("max_components", comps as u64)
            .max("max_holes", holes as u64)
            .max("max_path_segments", path.len() as u64),
    )
}

fn g_arbitrary(maxdim: usize) -> BoxedStrategy<BitmapCase> {
    (1usize..=maxdim, 1usize..=maxdim, any::<u64>(), 13u8..=242)
        .prop_map(|(w, h, seed, dens)| {
            let mut bits: Vec<bool> = expand(seed, w * h).iter().map(|b| *b < dens).collect();
            bits[0] = true;
            BitmapCase { width: w, bits, stratum: "arbitrary" }
        })
        .boxed()
}

fn g_small() -> BoxedStrategy<BitmapCase> {
    // tiny bitmaps: all topologies of 2x2..5x5 appear quickly
    (1usize..=5, 1usize..=5, vec(any::<bool>(), 25))
        .prop_map(|(w, h, b)| {
            let mut bits: Vec<bool> = b[..w * h].to_vec();
            bits[0] = true;
            BitmapCase { width: w, bits, stratum: "tiny" }
        })
        .boxed()
}

#[derive(Debug, Clone)]
struct Op {
    kind: u16,
    x: u16,
    y: u16,
    w: u16,
    h: u16,
}

fn g_structured(maxdim: usize) -> BoxedStrategy<BitmapCase> {
    let op = (any::<u16>(), any::<u16>(), any::<u16>(), any::<u16>(), any::<u16>()).prop_map(|(kind, x, y, w, h)| Op { kind, x, y, w, h });
    (4usize..=maxdim, 4usize..=maxdim, vec(op, 1..8))
        .prop_map(|(w, h, ops)| {
            let mut bits = vec![false; w * h];
            for o in ops {
                let x0 = pick(o.x, w);
                let y0 = pick(o.y, h);
                let rw = 1 + pick(o.w, w - x0);
                let rh = 1 + pick(o.h, h - y0);
                for y in y0..y0 + rh {
                    for x in x0..x0 + rw {
                        let (rx, ry) = (x - x0, y - y0);
                        let i = y * w + x;
                        match pick(o.kind, 7) {
                            0 => bits[i] = true,                                                          // filled rectangle
                            1 => if rx == 0 || ry == 0 || rx == rw - 1 || ry == rh - 1 { bits[i] = true } // ring
                            2 => bits[i] = (rx + ry) % 2 == 0,                                            // checkerboard
                            3 => if rx == ry || rx + 1 == ry { bits[i] = rx == ry }                       // diagonal of touching corners
                            4 => bits[i] = !bits[i],                                                      // invert
                            5 => bits[i] = false,                                                         // punch a hole
                            _ => { let m = rx.min(ry).min(rw - 1 - rx).min(rh - 1 - ry); bits[i] = m % 2 == 0 } // nested rings
                        }
                    }
                }
            }
            bits[0] = true;
            BitmapCase { width: w, bits, stratum: "structured" }
        })
        .boxed()
}

fn g_symbol() -> BoxedStrategy<BitmapCase> {
    (any::<u16>(), g_bytes_len(0, 20, 8, 200))
        .prop_map(|(s, msg)| {
            // try the drawn size, fall back to the default list
            let size = CRATE_SYMBOLS[pick(s, 48)];
            let dm = guard(|| DataMatrix::encode(&msg, size)).ok().and_then(|r| r.ok()).or_else(|| guard(|| DataMatrix::encode(&msg, datamatrix::SymbolList::all())).ok().and_then(|r| r.ok()));
            match dm {
                Some(dm) => {
                    let bm = dm.bitmap();
                    BitmapCase { width: bm.width(), bits: bm.bits().to_vec(), stratum: "encoded-symbol" }
                }
                None => BitmapCase { width: 1, bits: vec![true], stratum: "encoded-symbol-failed" },
            }
        })
        .boxed()
}

/// Bitmaps larger than any Data Matrix symbol (the API takes any w x h array): beyond 181 x 181 the
/// number of outline-graph cells exceeds 2^15, beyond about 230 x 230 a densely dotted bitmap has more
/// than 2^16 unit path steps - where 16-bit indices inside the path builder would wrap.
fn g_large() -> BoxedStrategy<BitmapCase> {
    (178usize..=270, 178usize..=270, any::<u64>(), any::<u8>(), any::<u8>())
        .prop_map(|(w, h, seed, kind, dens)| {
            let r = expand(seed, w * h);
            let mut bits = vec![false; w * h];
            match kind % 5 {
                // sparse random modules
                0 => {
                    for (i, b) in bits.iter_mut().enumerate() {
                        *b = r[i] < 1 + dens % 12;
                    }
                }
                // isolated dots on the even grid (4 path steps each) plus a few random extra modules that
                // create diagonal contacts, i.e. outline nodes of degree four
                1 | 2 => {
                    for y in (0..h).step_by(2) {
                        for x in (0..w).step_by(2) {
                            bits[y * w + x] = true;
                        }
                    }
                    for (i, b) in bits.iter_mut().enumerate() {
                        if r[i] < 1 + dens % 4 {
                            *b = true;
                        }
                    }
                }
                // border frame + far corners
                3 => {
                    for x in 0..w {
                        bits[x] = true;
                        bits[(h - 1) * w + x] = r[x] & 1 == 1;
                    }
                    for y in 0..h {
                        bits[y * w] = true;
                        bits[y * w + w - 1] = r[y] & 2 == 2;
                    }
                    bits[w * h - 1] = true;
                }
                // two far apart modules only
                _ => {
                    bits[w * h - 1] = true;
                    bits[(h / 2) * w + w - 1] = dens & 1 == 1;
                }
            }
            bits[0] = true;
            BitmapCase { width: w, bits, stratum: "large" }
        })
        .boxed()
}

fn run(ctx: &Arc<Ctx>) {
    // all bitmaps up to 3x3 and 2x4 / 4x2 with dark top-left: exhaustive
    let mut tiny = Vec::new();
    for (w, h) in [(1usize, 1usize), (1, 2), (2, 1), (2, 2), (1, 3), (3, 1), (2, 3), (3, 2), (3, 3), (2, 4), (4, 2), (1, 4), (4, 1), (3, 4), (4, 3), (4, 4)] {
        for m in 0u32..(1 << (w * h)) {
            let bits: Vec<bool> = (0..w * h).map(|i| m >> i & 1 == 1).collect();
            if bits[0] || m == 0 {
                tiny.push(BitmapCase { width: w, bits, stratum: "exhaustive-tiny" });
            }
        }
    }
    ctx.run_enumerated("tiny", "bitmap", tiny, Some("every bitmap up to 4x4 with a dark top-left module (and the all-light ones)"), check);
    // one symbol per size
    let mut syms = Vec::new();
    for i in 0..48 {
        if let Ok(Ok(dm)) = guard(|| DataMatrix::encode(b"C17", CRATE_SYMBOLS[i])) {
            let bm = dm.bitmap();
            syms.push(BitmapCase { width: bm.width(), bits: bm.bits().to_vec(), stratum: "encoded-symbol" });
        }
    }
    ctx.run_enumerated("all-sizes", "bitmap", syms, None, check);
    let maxdim = if ctx.quick() { 64 } else { 177 };
    ctx.run_generated("small", "bitmap", ctx.cases(600_000, 6_000_000), g_small, check);
    ctx.run_generated("arbitrary", "bitmap", ctx.cases(100_000, 1_500_000), || g_arbitrary(maxdim), check);
    ctx.run_generated("structured", "bitmap", ctx.cases(100_000, 1_500_000), || g_structured(maxdim), check);
    ctx.run_generated("symbols", "bitmap", ctx.cases(20_000, 400_000), g_symbol, check);
    ctx.run_generated("large", "bitmap", ctx.cases(400, 6_000), g_large, check);
}

fn replay(_ctx: &Ctx, kind: &str, case: &Value) -> Option<Verdict> {
    match kind {
        "bitmap" => Some(check(&BitmapCase::from_json(case)?)),
        _ => None,
    }
}
