//! C13 — disabled encodation modes are never used.

use super::Prop;
use crate::cases::*;
use crate::core::*;
use crate::gens::*;
use crate::obs::*;
use refimpl::codec::{ref_decode, Mode};
use serde_json::Value;
use std::sync::Arc;

pub static PROP: Prop = Prop {
    id: "C13",
    run,
    replay,
    rule: "cases = (input, list incl. fitted lists, one of the 63 non-empty mode subsets with extra weight on singletons / sets without ASCII / complements of one mode, macro flag); oracle = every latch the mode-tracking reference decoder finds names an enabled mode, and with ASCII disabled ASCII-carried characters appear only as the standard's end-of-data fallback (last segment, directly after a C40/Text/X12/EDIFACT latch or run, only padding behind, and no more than that mode's own end-of-data rule can leave: after C40/Text one character or one digit pair, after X12 at most two characters, after EDIFACT at most four characters in at most two codewords); the same oracle is applied to the stream of the string entry point encode_str when the input is valid UTF-8; non-trivial = mode set != all AND stream has >= 1 latch; distinct by (input, configuration)",
    assumptions: &["pad, unlatch, macro, FNC1 and ECI codewords are not 'use of ASCII mode'", "the fallback rule is the widest reading of 'the final few characters': EDIFACT's <= 2 codewords (<= 4 digits), C40/Text rules c/d, and X12's 'unlatch and encode the remaining one or two characters in ASCII' (5.2.7.2; up to 4 codewords with upper shift)"],
    extra: super::no_extra,
    fuzz_runs: 200000,
};

/// the structural oracle on one decoded stream
fn structure(cw: &[u8], d: &refimpl::codec::Decoded, modes: u8, data: &[u8]) -> Result<(bool, (usize, usize), String), String> {
    let enabled = |m: Mode| modes & m.bit() != 0;
    for (i, l) in d.latches.iter().enumerate() {
        if !enabled(*l) {
            return Err(format!("latch #{} switches to {:?} which is not enabled (enabled {}; input {:?}, codewords {:?})", i + 1, l, mode_names(modes), show(data), cw));
        }
    }
    let mut fallback_used = false;
    let mut fb = (0usize, 0usize);
    let mut fbmode = String::new();
    if !enabled(Mode::Ascii) {
        let n = d.segs.len();
        for (i, s) in d.segs.iter().enumerate() {
            if s.mode != Mode::Ascii || s.out_end == s.out_start {
                continue;
            }
            let chars = s.out_end - s.out_start;
            let cws = s.cw_end - s.cw_start;
            let is_last = i + 1 == n;
            let after_fallback_mode = i > 0 && matches!(d.segs[i - 1].mode, Mode::C40 | Mode::Text | Mode::X12 | Mode::Edifact) && d.segs[i - 1].cw_end <= s.cw_start;
            // what each mode's own end-of-data rule can leave to ASCII: C40 / Text - the one character (or
            // digit pair) that no longer fills a triple; X12 - the one or two characters behind the last
            // complete triple; EDIFACT - the rest that fits two ASCII codewords (up to four digits)
            let shape_ok = after_fallback_mode
                && match d.segs[i - 1].mode {
                    Mode::C40 | Mode::Text => (chars == 1 && cws <= 2) || (chars == 2 && cws == 1),
                    Mode::X12 => chars <= 2 && cws <= 4,
                    Mode::Edifact => cws <= 2 && chars <= 4,
                    _ => false,
                };
            if !(is_last && shape_ok) {
                return Err(format!(
                    "ASCII is disabled but {} character(s) {:?} are carried by {} ASCII codeword(s) at codeword {} (last segment: {}, after C40/Text/X12/EDIFACT: {}; enabled {}; input {:?}, codewords {:?})",
                    chars, show(&d.bytes[s.out_start..s.out_end]), cws, s.cw_start, is_last, after_fallback_mode, mode_names(modes), show(data), cw
                ));
            }
            fallback_used = true;
            fb = (cws, chars);
            fbmode = format!("{:?}", d.segs[i - 1].mode);
        }
    }
    Ok((fallback_used, fb, fbmode))
}

pub fn check(c: &EncCase) -> Verdict {
    if c.list == 0 || c.modes == 0 {
        return Verdict::Pass(Pass::new("out-of-domain", false));
    }
    let dm = match encode_obs(c) {
        EncOutcome::Ok(dm) => dm,
        EncOutcome::Refused(_) => return Verdict::Pass(Pass::new(format!("{}/refused", modes_class(c.modes)), false).count("refused", 1)),
        EncOutcome::Panic(_) => return Verdict::Pass(Pass::new(format!("{}/encoder-panic(C11)", modes_class(c.modes)), false).count("encoder_panics", 1)),
    };
    let cw = dm.data_codewords();
    let d = match r1(&dm) {
        Ok(d) => d,
        Err(_) => return Verdict::Pass(Pass::new("stream-not-conformant(C02)", false).count("not_conformant", 1)),
    };
    let (fallback_used, fb, fbmode) = match structure(cw, &d, c.modes, &c.data) {
        Ok(x) => x,
        Err(e) => return fail(e),
    };
    // the string entry point obeys the same restriction
    if c.eci.is_none() && !c.fnc1 {
        if let Ok(text) = std::str::from_utf8(&c.data) {
            if let Ok(Ok(dm2)) = guard(|| c.builder().encode_str(text)) {
                if let Ok(d2) = ref_decode(dm2.data_codewords()) {
                    if let Err(e) = structure(dm2.data_codewords(), &d2, c.modes, &c.data) {
                        return fail(format!("encode_str: {}", e));
                    }
                }
            }
        }
    }
    let nontrivial = c.modes != 63 && !d.latches.is_empty();
    Verdict::Pass(Pass::new(format!("{}/{}{}", modes_class(c.modes), stream_class(&d), if fallback_used { format!("/ascii-fallback-after-{}-{}cw-{}ch", fbmode, fb.0, fb.1) } else { String::new() }), nontrivial).count("no_ascii_cases", (c.modes & 1 == 0) as u64))
}

fn run(ctx: &Arc<Ctx>) {
    // every mode subset on a few fixed inputs
    let mut fixed = Vec::new();
    for s in [&b"Hello, World!"[..], b"A", b"AB", b"ABC", b"ABCD", b"1234567", b"a1B2c3D4e5", b"\xfaaaa", b"*>\r ABC", b"ab\x80\x81cd"] {
        for modes in 1..64u8 {
            fixed.push(EncCase { data: s.to_vec(), list: default_mask(), modes, macros: true, fnc1: false, eci: None, stratum: "fixed" });
        }
    }
    ctx.run_enumerated("fixed", "enc", fixed, None, check);
    let o = EncGenOpts { long_weight: if ctx.quick() { 1 } else { 2 }, allow_fnc1: false, ..Default::default() };
    // restricted mode sets are the point of this property: re-draw "all modes" cases as restricted ones
    ctx.run_generated("generated", "enc", ctx.cases(600_000, 4_000_000), || {
        use proptest::prelude::*;
        (g_enc_case(o), 1u8..=62).prop_map(|(mut c, m)| {
            if c.modes == 63 {
                c.modes = m;
            }
            c
        })
    }, check);
}

fn replay(_ctx: &Ctx, kind: &str, case: &Value) -> Option<Verdict> {
    match kind {
        "enc" => Some(check(&EncCase::from_json(case)?)),
        _ => None,
    }
}
