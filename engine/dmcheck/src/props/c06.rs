//! C06 — error codewords conform to the ISO/IEC 16022 Reed-Solomon code.

use super::Prop;
use crate::cases::*;
use crate::core::*;
use crate::gens::pick;
use proptest::collection::vec;
use proptest::prelude::*;
use refimpl::gf;
use refimpl::table::SYMBOLS;
use serde_json::{json, Value};
use std::sync::Arc;

pub static PROP: Prop = Prop {
    id: "C06",
    run,
    replay,
    rule: "cases = (symbol size, data codeword vector of the size's capacity): enumerated every unit vector e_i*v (v in {1, 2, 0x53, 255}) of every size, all-zero and all-255, plus generated random / sparse vectors; oracle = all k syndromes of every interleaved block computed with independent shift-xor GF(256) arithmetic are zero, count equals Table 7, and the error codewords equal those of the reference encoder; non-trivial = non-zero data vector; distinct by (size, vector)",
    assumptions: &["field polynomial 0x12D and generator roots 2^1..2^k as in ISO/IEC 16022 Annex E (checked against the 5-check-character generator 62 111 15 48 228)"],
    extra: super::no_extra,
    fuzz_runs: 30000,
};

#[derive(Debug, Clone)]
pub struct RsData {
    pub sym: usize,
    pub data: Vec<u8>,
    pub stratum: &'static str,
}

impl Case for RsData {
    fn to_json(&self) -> Value {
        json!({"size": SYMBOLS[self.sym].name, "data": hex(&self.data)})
    }
}

impl RsData {
    pub fn from_json(v: &Value) -> Option<Self> {
        Some(RsData { sym: refimpl::table::index_of(v["size"].as_str()?)?, data: unhex(v["data"].as_str()?)?, stratum: "replay" })
    }
}

pub fn check(c: &RsData) -> Verdict {
    let sym = &SYMBOLS[c.sym];
    if c.data.len() != sym.data {
        return Verdict::EngineBug("data length does not match the size".into());
    }
    let size = CRATE_SYMBOLS[c.sym];
    let ecc = match guard(|| datamatrix::errorcode::encode_error(&c.data, size)) {
        Ok(e) => e,
        Err(p) => return fail(format!("encode_error panicked for {}: {}", sym.name, p)),
    };
    if ecc.len() != sym.ec {
        return fail(format!("{}: {} error codewords returned, the standard specifies {}", sym.name, ecc.len(), sym.ec));
    }
    let mut word = c.data.clone();
    word.extend_from_slice(&ecc);
    for b in 0..sym.blocks {
        let syn = gf::block_syndromes(sym, &word, b);
        if let Some(j) = syn.iter().position(|s| *s != 0) {
            return fail(format!("{}: block {} of {} is not a multiple of the generator: syndrome S_{} = {} (data {})", sym.name, b, sym.blocks, j + 1, syn[j], hex(&c.data[..c.data.len().min(24)])));
        }
    }
    // redundant given the syndromes (systematic code), but cheap: compare with the reference encoder
    let reference = gf::ref_encode(sym, &c.data);
    if reference != ecc {
        return fail(format!("{}: error codewords differ from the reference encoder", sym.name));
    }
    let nontrivial = c.data.iter().any(|x| *x != 0);
    Verdict::Pass(Pass::new(format!("{}/blocks{}", c.stratum, sym.blocks), nontrivial))
}

pub fn g_rs_data() -> BoxedStrategy<RsData> {
    (any::<u16>(), any::<u16>(), crate::gens::g_blob(1558), vec(any::<u16>(), 0..6))
        .prop_map(|(s, k, bytes, sparse)| {
            let sym = pick(s, 48);
            let n = SYMBOLS[sym].data;
            match pick(k, 3) {
                0 => RsData { sym, data: bytes[..n].to_vec(), stratum: "random" },
                1 => {
                    let mut d = vec![0u8; n];
                    for (i, p) in sparse.iter().enumerate() {
                        d[pick(*p, n)] = bytes[i] | 1;
                    }
                    RsData { sym, data: d, stratum: "sparse" }
                }
                _ => {
                    // low entropy: two values
                    let d = bytes[..n].iter().map(|b| if b & 1 == 0 { bytes[0] } else { bytes[1] }).collect();
                    RsData { sym, data: d, stratum: "two-valued" }
                }
            }
        })
        .boxed()
}

fn run(ctx: &Arc<Ctx>) {
    let mut cases = Vec::new();
    for (i, s) in SYMBOLS.iter().enumerate() {
        cases.push(RsData { sym: i, data: vec![0; s.data], stratum: "zero" });
        cases.push(RsData { sym: i, data: vec![255; s.data], stratum: "all255" });
        let values: &[u8] = if ctx.quick() { &[1, 0x53] } else { &[1, 2, 0x53, 255] };
        for p in 0..s.data {
            for v in values {
                let mut d = vec![0u8; s.data];
                d[p] = *v;
                cases.push(RsData { sym: i, data: d, stratum: "unit" });
            }
        }
    }
    ctx.run_enumerated("unit-vectors", "rsdata", cases, Some("every unit vector position of every symbol size (the code is linear, so unit vectors span all data vectors)"), check);
    ctx.run_generated("generated", "rsdata", ctx.cases(20_000, 600_000), g_rs_data, check);
}

fn replay(_ctx: &Ctx, kind: &str, case: &Value) -> Option<Verdict> {
    match kind {
        "rsdata" => Some(check(&RsData::from_json(case)?)),
        _ => None,
    }
}
