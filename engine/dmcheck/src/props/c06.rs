//! C06 — error codewords conform to the ISO/IEC 16022 Reed-Solomon code.

use super::Prop;
use crate::cases::*;
use crate::core::*;
use crate::gens::pick;
use proptest::collection::vec;
use proptest::prelude::*;
use refimpl::gf;
use refimpl::table::SYMBOLS;
use serde_json::{json, Value};
use std::sync::Arc;

pub static PROP: Prop = Prop {
    id: "C06",
    run,
    replay,
    rule: "cases = (symbol size, data codeword vector of the size's capacity): enumerated every unit vector e_i*v (v in {1, 2, 0x53, 255}) of every size, all-zero and all-255, plus generated random / sparse vectors; oracle = all k syndromes of every interleaved block computed with independent shift-xor GF(256) arithmetic are zero, count equals Table 7, and the error codewords equal those of the reference encoder; non-trivial = non-zero data vector; distinct by (size, vector)",
    assumptions: &["field polynomial 0x12D and generator roots 2^1..2^k as in ISO/IEC 16022 Annex E (checked against the 5-check-character generator 62 111 15 48 228)"],
    extra: super::no_extra,
    fuzz_runs: 100000,
};

#[derive(Debug, Clone)]
pub struct RsData {
    pub sym: usize,
    pub data: Vec<u8>,
    pub stratum: &'static str,
}

impl Case for RsData {
    fn to_json(&self) -> Value {
        json!({"size": SYMBOLS[self.sym].name, "data": hex(&self.data)})
    }
}

impl RsData {
    pub fn from_json(v: &Value) -> Option<Self> {
        Some(RsData { sym: refimpl::table::index_of(v["size"].as_str()?)?, data: unhex(v["data"].as_str()?)?, stratum: "replay" })
    }
}

pub fn check(c: &RsData) -> Verdict {
    let sym = &SYMBOLS[c.sym];
    if c.data.len() != sym.data {
        return Verdict::EngineBug("data length does not match the size".into());
    }
    let size = CRATE_SYMBOLS[c.sym];
    let ecc = match guard(|| datamatrix::errorcode::encode_error(&c.data, size)) {
        Ok(e) => e,
        Err(p) => return fail(format!("encode_error panicked for {}: {}", sym.name, p)),
    };
    if ecc.len() != sym.ec {
        return fail(format!("{}: {} error codewords returned, the standard specifies {}", sym.name, ecc.len(), sym.ec));
    }
    let mut word = c.data.clone();
    word.extend_from_slice(&ecc);
    for b in 0..sym.blocks {
        let syn = gf::block_syndromes(sym, &word, b);
        if let Some(j) = syn.iter().position(|s| *s != 0) {
            return fail(format!("{}: block {} of {} is not a multiple of the generator: syndrome S_{} = {} (data {})", sym.name, b, sym.blocks, j + 1, syn[j], hex(&c.data[..c.data.len().min(24)])));
        }
    }
    // redundant given the syndromes (systematic code), but cheap: compare with the reference encoder
    let reference = gf::ref_encode(sym, &c.data);
    if reference != ecc {
        return fail(format!("{}: error codewords differ from the reference encoder", sym.name));
    }
    let nontrivial = c.data.iter().any(|x| *x != 0);
    Verdict::Pass(Pass::new(format!("{}/blocks{}", c.stratum, sym.blocks), nontrivial))
}

/// remainder register of the reference LFSR after a message (one block, MSB first)
fn remainder(msg: &[u8], g: &[u8]) -> Vec<u8> {
    let k = g.len() - 1;
    let mut rem = vec![0u8; k];
    for d in msg {
        let f = *d ^ rem[0];
        for j in 0..k {
            let next = if j + 1 < k { rem[j + 1] } else { 0 };
            rem[j] = next ^ gf::mul(f, g[j + 1]);
        }
    }
    rem
}

/// Data vectors that steer the division register of one block into a special state at a chosen
/// position (all zero, a single non-zero entry in first / last / any place, all entries equal),
/// followed by a chosen next codeword (0, equal to the register's head, random) and random data.
/// Random data reaches such states with probability 255^-(k-1); shortcuts in an encoder
/// ("nothing to do if the remainder is empty") are wrong exactly there.  The k codewords in
/// front of the position are solved for (the register is an invertible linear function of them).
pub fn g_register_state() -> BoxedStrategy<RsData> {
    (any::<u16>(), crate::gens::g_blob(1558), any::<u16>(), any::<u16>(), any::<u16>(), any::<u16>(), any::<u8>(), any::<u16>())
        .prop_map(|(s, bytes, bsel, psel, fam, nxt, val, zsel)| {
            let symi = crate::rsgen::pick_sym(s);
            let sym = &SYMBOLS[symi];
            let k = sym.ec_per_block();
            let g = gf::generator(k);
            let b = pick(bsel, sym.blocks);
            let nd = sym.block_data_len(b);
            let mut data = match pick(zsel, 3) { 0 => vec![0u8; sym.data], _ => bytes[..sym.data].to_vec() };
            if nd < k + 1 {
                return RsData { sym: symi, data, stratum: "register-state(block too short)" };
            }
            // block-local view
            let idx: Vec<usize> = (b..sym.data).step_by(sym.blocks).collect();
            // the register shall have the target value after position p (exclusive), k <= p <= nd
            let p = match pick(psel, 4) { 0 => nd, 1 => k, _ => k + pick(psel.rotate_left(5), nd - k + 1) };
            let v = if val == 0 { 1 } else { val };
            let mut target = vec![0u8; k];
            match pick(fam, 6) {
                0 => {}
                1 => target[0] = v,
                2 => target[k - 1] = v,
                3 => target[pick(fam.rotate_left(7), k)] = v,
                4 => target.iter_mut().for_each(|x| *x = v),
                _ => {
                    target[0] = v;
                    target[k - 1] = v.rotate_left(3) | 1;
                }
            }
            // prefix of the block before the k solved codewords
            let mut blk: Vec<u8> = idx.iter().map(|i| data[*i]).collect();
            let base = remainder(&blk[..p - k], &g);
            // register after k more codewords d: R = T(base) + M d, M invertible; columns by unit vectors
            let zero_prefix = vec![0u8; p - k];
            let mut with = |d: &[u8]| {
                let mut m = zero_prefix.clone();
                m.extend_from_slice(d);
                remainder(&m, &g)
            };
            let mut cols = Vec::new();
            for i in 0..k {
                let mut u = vec![0u8; k];
                u[i] = 1;
                cols.push(with(&u));
            }
            // contribution of the prefix: shift base through k zero codewords
            let mut pm = blk[..p - k].to_vec();
            pm.extend(std::iter::repeat(0u8).take(k));
            let tb = remainder(&pm, &g);
            let _ = base;
            let a: Vec<Vec<u8>> = (0..k).map(|r| (0..k).map(|c| cols[c][r]).collect()).collect();
            let rhs: Vec<u8> = (0..k).map(|r| target[r] ^ tb[r]).collect();
            if let Some(d) = gf::solve(&a, &rhs) {
                blk[p - k..p].copy_from_slice(&d[..k]);
            }
            if p < nd {
                blk[p] = match pick(nxt, 4) { 0 => 0, 1 => target[0], 2 => target[k - 1], _ => blk[p] };
            }
            for (j, i) in idx.iter().enumerate() {
                data[*i] = blk[j];
            }
            RsData { sym: symi, data, stratum: "register-state" }
        })
        .boxed()
}

pub fn g_rs_data() -> BoxedStrategy<RsData> {
    (any::<u16>(), any::<u16>(), crate::gens::g_blob(1558), vec(any::<u16>(), 0..6))
        .prop_map(|(s, k, bytes, sparse)| {
            let sym = pick(s, 48);
            let n = SYMBOLS[sym].data;
            match pick(k, 3) {
                0 => RsData { sym, data: bytes[..n].to_vec(), stratum: "random" },
                1 => {
                    let mut d = vec![0u8; n];
                    for (i, p) in sparse.iter().enumerate() {
                        d[pick(*p, n)] = bytes[i] | 1;
                    }
                    RsData { sym, data: d, stratum: "sparse" }
                }
                _ => {
                    // low entropy: two values
                    let d = bytes[..n].iter().map(|b| if b & 1 == 0 { bytes[0] } else { bytes[1] }).collect();
                    RsData { sym, data: d, stratum: "two-valued" }
                }
            }
        })
        .boxed()
}

fn run(ctx: &Arc<Ctx>) {
    let mut cases = Vec::new();
    for (i, s) in SYMBOLS.iter().enumerate() {
        cases.push(RsData { sym: i, data: vec![0; s.data], stratum: "zero" });
        cases.push(RsData { sym: i, data: vec![255; s.data], stratum: "all255" });
        let values: &[u8] = if ctx.quick() { &[1, 0x53] } else { &[1, 2, 0x53, 255] };
        for p in 0..s.data {
            for v in values {
                let mut d = vec![0u8; s.data];
                d[p] = *v;
                cases.push(RsData { sym: i, data: d, stratum: "unit" });
            }
        }
    }
    ctx.run_enumerated("unit-vectors", "rsdata", cases, Some("every unit vector position of every symbol size (the code is linear, so unit vectors span all data vectors)"), check);
    ctx.run_generated("generated", "rsdata", ctx.cases(60_000, 1_000_000), g_rs_data, check);
    ctx.run_generated("register-states", "rsdata", ctx.cases(100_000, 1_500_000), g_register_state, check);
}

fn replay(_ctx: &Ctx, kind: &str, case: &Value) -> Option<Verdict> {
    match kind {
        "rsdata" => Some(check(&RsData::from_json(case)?)),
        _ => None,
    }
}
