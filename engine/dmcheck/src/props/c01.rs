//! C01 — encode -> symbol -> decode returns exactly the original bytes.

use super::Prop;
use crate::cases::*;
use crate::core::*;
use crate::gens::*;
use crate::obs::*;
use datamatrix::DataMatrix;
use serde_json::Value;
use std::sync::Arc;

pub static PROP: Prop = Prop {
    id: "C01",
    run,
    replay,
    rule: "cases = (byte string from class-run generator or macro-envelope generator, symbol list incl. lists fitted around the needed size, mode subset of the 63 non-empty ones, macro flag, FNC1 flag); non-trivial = encoding succeeded AND (stream contains a non-ASCII latch OR a macro/FNC1 header OR the list is not the default list); distinct by fingerprint of (input, configuration)",
    assumptions: &[
        "reference decoder R1 transcribed from ISO/IEC 16022 5.2 (independent of the crate)",
        "encoder refusals and panics are counted, not failed here (they are C11's)",
    ],
    extra: super::no_extra,
    fuzz_runs: 200000,
};

pub fn check(c: &EncCase) -> Verdict {
    if c.list == 0 {
        return Verdict::Pass(Pass::new("empty-list", false));
    }
    let dm = match encode_obs(c) {
        EncOutcome::Ok(dm) => dm,
        EncOutcome::Refused(_) => return Verdict::Pass(Pass::new(format!("{}/refused", c.stratum), false).count("refused", 1)),
        EncOutcome::Panic(_) => return Verdict::Pass(Pass::new(format!("{}/encoder-panic(C11)", c.stratum), false).count("encoder_panics", 1)),
    };
    // path 1: module matrix (finder included) -> decode
    let bm = dm.bitmap();
    let pixels: Vec<bool> = bm.bits().to_vec();
    let width = bm.width();
    match guard(|| DataMatrix::decode(&pixels, width)) {
        Ok(Ok(out)) => {
            if out != c.data {
                return fail(format!("DataMatrix::decode(bitmap) returned {:?}, input was {:?} (size {:?})", show(&out), show(&c.data), dm.size));
            }
        }
        Ok(Err(e)) => return fail(format!("DataMatrix::decode(bitmap) of the crate's own symbol failed: {:?} (input {:?}, size {:?})", e, show(&c.data), dm.size)),
        Err(p) => return fail(format!("DataMatrix::decode(bitmap) of the crate's own symbol panicked: {} (input {:?})", p, show(&c.data))),
    }
    // the convenience wrappers are documented as the builder with default settings: same symbol
    if c.modes == 63 && c.macros && c.eci.is_none() {
        let list = mask_to_list(c.list);
        let w = if c.fnc1 { guard(|| DataMatrix::encode_gs1(&c.data, list.clone())) } else { guard(|| DataMatrix::encode(&c.data, list.clone())) };
        match w {
            Ok(Ok(w)) => {
                if w.size != dm.size || w.codewords() != dm.codewords() {
                    return fail(format!("DataMatrix::{} returns {:?} / {:?}, the builder with the same settings {:?} / {:?} (input {:?})", if c.fnc1 { "encode_gs1" } else { "encode" }, w.size, &w.data_codewords()[..w.data_codewords().len().min(12)], dm.size, &dm.data_codewords()[..dm.data_codewords().len().min(12)], show(&c.data)));
                }
            }
            Ok(Err(e)) => return fail(format!("DataMatrix::{} refuses ({:?}) what the builder with the same settings encodes (input {:?})", if c.fnc1 { "encode_gs1" } else { "encode" }, e, show(&c.data))),
            Err(_) => {} // C11
        }
    }
    // path 2: data codewords -> decode_data
    match guard(|| datamatrix::data::decode_data(dm.data_codewords())) {
        Ok(Ok(out)) => {
            if out != c.data {
                return fail(format!("decode_data(data_codewords) returned {:?}, input was {:?} (codewords {:?})", show(&out), show(&c.data), dm.data_codewords()));
            }
        }
        Ok(Err(e)) => return fail(format!("decode_data(data_codewords) failed: {:?} (input {:?}, codewords {:?})", e, show(&c.data), dm.data_codewords())),
        Err(p) => return fail(format!("decode_data(data_codewords) panicked: {} (input {:?})", p, show(&c.data))),
    }
    // independent view: the reference decoder must see the same bytes (so a decoder that is
    // wrong in the same way as the encoder cannot hide a loss)
    let d = match r1(&dm) {
        Ok(d) => d,
        Err(e) => return fail(format!("reference decoder rejects the stream: {} (input {:?}, codewords {:?})", e.0, show(&c.data), dm.data_codewords())),
    };
    if d.message() != c.data {
        return fail(format!("reference decoder reads {:?}, input was {:?} (codewords {:?})", show(&d.message()), show(&c.data), dm.data_codewords()));
    }
    let nontrivial = !d.latches.is_empty() || d.macro_cw.is_some() || d.fnc1_first || c.list != default_mask();
    Verdict::Pass(Pass::new(format!("{}/{}/{}/{}", c.stratum, list_class(c.list), modes_class(c.modes), stream_class(&d)), nontrivial))
}

fn run(ctx: &Arc<Ctx>) {
    // fixed strings of the repository's own tests, under every configuration axis
    let mut fixed = Vec::new();
    for s in [&b"Hello, World!"[..], b"", b"A", b"123456", b"AIMAIMAIM", b"[)>\x1e05\x1d01\x1e\x04", b"[)>\x1e05\x1dABC", b"[)>\x1e06\x1d", b"\xab\xe4\xf6\xfc\xe9\xbb"] {
        for modes in [63u8, 62, 1, 2, 4, 8, 16, 32] {
            for (macros, fnc1) in [(true, false), (false, false), (true, true)] {
                fixed.push(EncCase { data: s.to_vec(), list: default_mask(), modes, macros, fnc1, eci: None, stratum: "fixed" });
            }
        }
    }
    ctx.run_enumerated("fixed", "enc", fixed, None, check);
    let o = EncGenOpts { long_weight: if ctx.quick() { 1 } else { 2 }, ..Default::default() };
    ctx.run_generated("generated", "enc", ctx.cases(300_000, 3_000_000), || g_enc_case(o), check);
}

fn replay(_ctx: &Ctx, kind: &str, case: &Value) -> Option<Verdict> {
    match kind {
        "enc" => Some(check(&EncCase::from_json(case)?)),
        _ => None,
    }
}
