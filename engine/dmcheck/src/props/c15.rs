//! C15 — ECI designators and character-set tables are exact.

use super::Prop;
use crate::cases::*;
use crate::core::*;
use crate::gens::*;
use datamatrix::data::DataDecodingError;
use datamatrix::DataMatrixBuilder;
use proptest::collection::vec;
use proptest::prelude::*;
use refimpl::charset;
use refimpl::codec::{eci_codewords, rand255};
use serde_json::{json, Value};
use std::sync::Arc;

pub static PROP: Prop = Prop {
    id: "C15",
    run,
    replay,
    rule: "enumerated: all 1,000,000 ECI numbers written by encode_eci and compared with the 1/2/3-codeword forms of ISO/IEC 16022 and read back through the decoder (hook decode_parts) as the same number; all designator sequences [241,a], [241,a,b], [241,a,b,c] (2^24 three-byte sequences) against the standard's acceptance rule; 256 byte values x ECI {none,3,11,13,26,27} carried by ASCII/upper shift and by Base256 against tables generated from the charset definitions; generated: multi-segment payloads with ECI switches, valid / mutated / random UTF-8 and 7-bit payloads; non-trivial = numbers within 2 of a form boundary (126/127, 16382/16383, 999999), bytes >= 0xA0 under ECI 11/13, payloads with >= 2 ECI segments or invalid sequences; distinct by case",
    assumptions: &["designators that decode to a number above 999999 are only required not to panic", "ISO-8859-9 = ISO-8859-1 with 6 replacements, ISO-8859-11 per 8859-11.TXT (0xDB-0xDE, 0xFC-0xFF undefined)", "read-back uses hook H2 verif::decode_parts; decode_data must report ECICode for the same stream"],
    extra: super::no_extra,
    fuzz_runs: 200000,
};

// ---------------------------------------------------------------------------------------------
// all ECI numbers
// ---------------------------------------------------------------------------------------------

#[derive(Debug, Clone)]
pub struct EciBlock {
    pub start: u32,
    pub len: u32,
}

impl Case for EciBlock {
    fn to_json(&self) -> Value {
        json!({"eci_start": self.start, "eci_len": self.len})
    }
}

fn check_eci_number(n: u32) -> Result<(), String> {
    let form = eci_codewords(n);
    // write
    let dm = match guard(|| DataMatrixBuilder::new().encode_eci(b"", Some(n))) {
        Ok(Ok(dm)) => dm,
        Ok(Err(e)) => return Err(format!("encode_eci(b\"\", Some({})) failed: {:?}", n, e)),
        Err(p) => return Err(format!("encode_eci(b\"\", Some({})) panicked: {}", n, p)),
    };
    let cw = dm.data_codewords();
    if cw.len() < form.len() || cw[..form.len()] != form[..] {
        return Err(format!("ECI {} is written as {:?}, the standard's form is {:?}", n, &cw[..cw.len().min(form.len())], form));
    }
    // the lower level entry point writes the same designator
    match guard(|| datamatrix::data::encode_data(b"", &datamatrix::SymbolList::default(), Some(n), datamatrix::EncodationType::all(), true)) {
        Ok(Ok((v, _))) if v[..] == cw[..] => {}
        Ok(Ok((v, _))) => return Err(format!("data::encode_data writes ECI {} as {:?}, the builder as {:?}", n, &v[..v.len().min(5)], &cw[..cw.len().min(5)])),
        Ok(Err(e)) => return Err(format!("data::encode_data(b\"\", .., Some({}), ..) failed: {:?}", n, e)),
        Err(p) => return Err(format!("data::encode_data(b\"\", .., Some({}), ..) panicked: {}", n, p)),
    }
    // what follows must be padding only
    if cw.len() > form.len() && cw[form.len()] != 129 {
        return Err(format!("ECI {} with empty data: codeword after the designator is {} (expected pad 129)", n, cw[form.len()]));
    }
    // read
    let mut stream = form.clone();
    stream.push(66); // 'A'
    match guard(|| datamatrix::verif::decode_parts(&stream, true)) {
        Ok(Ok(p)) => {
            if p.eci_spans != vec![(0usize, n)] || p.output != b"A" {
                return Err(format!("designator {:?} of ECI {} is read back as {:?} (output {:?})", &form[1..], n, p.eci_spans, p.output));
            }
        }
        Ok(Err(e)) => return Err(format!("designator {:?} of ECI {} is rejected by the decoder: {:?}", &form[1..], n, e)),
        Err(p) => return Err(format!("decoder panicked on designator {:?} of ECI {}: {}", &form[1..], n, p)),
    }
    // the designator must not disturb what follows it: a padded stream (two and more pads, whose
    // 253-state randomisation depends on the codeword position) and a Base256 field (255-state)
    let padded = refimpl::codec::pad_to(stream.clone(), stream.len() + 2 + (n as usize % 5));
    match guard(|| datamatrix::verif::decode_parts(&padded, true)) {
        Ok(Ok(p)) if p.eci_spans == vec![(0usize, n)] && p.output == b"A" => {}
        Ok(other) => return Err(format!("designator of ECI {} followed by data and {} pad codewords reads back as {:?} (stream {:?})", n, padded.len() - stream.len(), other.map(|p| (p.eci_spans, p.output)), padded)),
        Err(p) => return Err(format!("decoder panicked on the padded stream for ECI {}: {}", n, p)),
    }
    let mut b256 = form.clone();
    let payload = [0xE9u8, (n % 251) as u8, 0x80];
    carry(&payload, true, &mut b256);
    match guard(|| datamatrix::verif::decode_parts(&b256, true)) {
        Ok(Ok(p)) if p.eci_spans == vec![(0usize, n)] && p.output == payload => {}
        Ok(other) => return Err(format!("designator of ECI {} followed by a Base256 field reads back as {:?} (stream {:?})", n, other.map(|p| (p.eci_spans, p.output)), b256)),
        Err(p) => return Err(format!("decoder panicked on ECI {} + Base256: {}", n, p)),
    }
    // public API cross check: raw decoding refuses ECIs
    match guard(|| datamatrix::data::decode_data(&stream)) {
        Ok(Err(DataDecodingError::ECICode)) => {}
        Ok(other) => return Err(format!("decode_data on a stream with ECI {} returned {:?} (expected Err(ECICode))", n, other)),
        Err(p) => return Err(format!("decode_data panicked on a stream with ECI {}: {}", n, p)),
    }
    // the crate's own output must read back as well
    match guard(|| datamatrix::verif::decode_parts(cw, true)) {
        Ok(Ok(p)) if p.eci_spans == vec![(0usize, n)] && p.output.is_empty() => {}
        Ok(other) => return Err(format!("the crate's own stream for ECI {} reads back as {:?}", n, other.map(|p| (p.eci_spans, p.output)))),
        Err(p) => return Err(format!("decoder panicked on the crate's own stream for ECI {}: {}", n, p)),
    }
    Ok(())
}

fn check_eci_block(c: &EciBlock) -> Verdict {
    for n in c.start..c.start + c.len {
        if let Err(e) = check_eci_number(n) {
            return fail(e);
        }
    }
    let near = |b: u32| c.start <= b + 2 && b <= c.start + c.len + 2;
    Verdict::Pass(Pass::new("eci-numbers", near(126) || near(16382) || near(999_999) || c.start == 0).count("eci_numbers_checked", c.len as u64))
}

// ---------------------------------------------------------------------------------------------
// designator sequences
// ---------------------------------------------------------------------------------------------

#[derive(Debug, Clone)]
pub struct DesignatorBlock {
    pub a: u8,
}

impl Case for DesignatorBlock {
    fn to_json(&self) -> Value {
        json!({"first_designator_codeword": self.a})
    }
}

/// expected result of reading the designator `d` (complete stream = [241] + d): Some(number) or None = reject
fn standard_eci(d: &[u8]) -> Option<u32> {
    let a = *d.first()? as u32;
    match a {
        1..=127 if d.len() == 1 => Some(a - 1),
        128..=191 if d.len() == 2 => {
            let b = d[1] as u32;
            if !(1..=254).contains(&b) {
                return None;
            }
            Some((a - 128) * 254 + (b - 1) + 127)
        }
        192..=207 if d.len() == 3 => {
            let (b, c) = (d[1] as u32, d[2] as u32);
            if !(1..=254).contains(&b) || !(1..=254).contains(&c) {
                return None;
            }
            Some((a - 192) * 64516 + (b - 1) * 254 + (c - 1) + 16383)
        }
        _ => None,
    }
}

fn check_designator(d: &[u8]) -> Result<(), String> {
    let mut stream = vec![241u8];
    stream.extend_from_slice(d);
    let want = standard_eci(d);
    let got = match guard(|| datamatrix::verif::decode_parts(&stream, true)) {
        Ok(r) => r,
        Err(p) => return Err(format!("decoder panicked on designator {:?}: {}", d, p)),
    };
    match (want, got) {
        (Some(n), Ok(p)) => {
            if n <= 999_999 && (p.eci_spans != vec![(0usize, n)] || !p.output.is_empty()) {
                return Err(format!("designator {:?} is ECI {} by the standard but is read as {:?} (output {:?})", d, n, p.eci_spans, p.output));
            }
        }
        (Some(n), Err(e)) => {
            if n <= 999_999 {
                return Err(format!("designator {:?} is a well-formed ECI {} but is rejected: {:?}", d, n, e));
            }
        }
        (None, Ok(p)) => {
            // a shorter designator followed by data is not what this stream is (lengths are exact), so acceptance is wrong
            return Err(format!("malformed / truncated designator {:?} is accepted as {:?} (output {:?})", d, p.eci_spans, p.output));
        }
        (None, Err(_)) => {}
    }
    Ok(())
}

fn check_designator_block(c: &DesignatorBlock) -> Verdict {
    let a = c.a;
    let mut n = 0u64;
    let mut run = |d: &[u8]| -> Result<(), String> {
        n += 1;
        check_designator(d)
    };
    let r: Result<(), String> = (|| {
        run(&[a])?;
        // one-codeword forms followed by more codewords are data, not designators: only test the
        // multi-codeword forms with their exact and truncated lengths
        if a >= 128 || a == 0 {
            for b in 0..=255u8 {
                run(&[a, b])?;
                if a >= 192 || a == 0 {
                    for cc in 0..=255u8 {
                        run(&[a, b, cc])?;
                    }
                }
            }
        }
        Ok(())
    })();
    match r {
        Ok(()) => Verdict::Pass(Pass::new("designators", (192..=207).contains(&a) || a == 0 || a == 127 || a == 128 || a == 191 || a == 208).count("designator_sequences_checked", n)),
        Err(e) => fail(e),
    }
}

// ---------------------------------------------------------------------------------------------
// charset tables
// ---------------------------------------------------------------------------------------------

#[derive(Debug, Clone)]
pub struct CharsetByte {
    /// None = no ECI codeword at all (default interpretation)
    pub eci: Option<u32>,
    pub byte: u8,
    pub via_base256: bool,
    /// Some(236 | 237): the stream starts with a Macro 05 / 06 codeword (header and trailer are
    /// re-created by the decoder around the payload)
    pub macro_cw: Option<u8>,
}

impl Case for CharsetByte {
    fn to_json(&self) -> Value {
        json!({"eci": self.eci, "byte": self.byte, "via_base256": self.via_base256, "macro": self.macro_cw})
    }
}

/// what the decoder must put around the payload of a macro stream
fn macro_wrap(macro_cw: Option<u8>, inner: Result<String, ()>) -> Result<String, ()> {
    match macro_cw {
        None => inner,
        Some(cw) => inner.map(|s| format!("[)>\u{1e}0{}\u{1d}{}\u{1e}\u{04}", if cw == 236 { 5 } else { 6 }, s)),
    }
}

fn carry(bytes: &[u8], via_base256: bool, out: &mut Vec<u8>) {
    if via_base256 && !bytes.is_empty() && bytes.len() < 250 {
        out.push(231);
        let p = out.len() + 1;
        out.push(rand255(bytes.len() as u8, p));
        for b in bytes {
            let p = out.len() + 1;
            out.push(rand255(*b, p));
        }
    } else {
        for b in bytes {
            if *b < 128 {
                out.push(*b + 1)
            } else {
                out.push(235);
                out.push(*b - 127)
            }
        }
    }
}

/// expected decoding of `payload` under `eci` (None = default = ISO-8859-1): Ok(string) or charset error
fn expected_text(eci: Option<u32>, payload: &[u8]) -> Result<String, ()> {
    match eci {
        None | Some(0) | Some(3) | Some(11) | Some(13) => {
            let e = eci.unwrap_or(3);
            payload.iter().map(|b| charset::expected_char(e, *b).ok_or(())).collect()
        }
        Some(26) => std::str::from_utf8(payload).map(|s| s.to_string()).map_err(|_| ()),
        Some(27) => {
            if payload.iter().all(|b| *b < 128) {
                Ok(payload.iter().map(|b| *b as char).collect())
            } else {
                Err(())
            }
        }
        _ => panic!("unsupported eci in oracle"),
    }
}

fn check_charset_byte(c: &CharsetByte) -> Verdict {
    let mut stream = Vec::new();
    if let Some(m) = c.macro_cw {
        stream.push(m);
    }
    if let Some(e) = c.eci {
        stream.extend(eci_codewords(e));
    }
    carry(&[c.byte], c.via_base256, &mut stream);
    let want = macro_wrap(c.macro_cw, expected_text(c.eci, &[c.byte]));
    let got = match guard(|| datamatrix::data::decode_str(&stream)) {
        Ok(g) => g,
        Err(p) => return fail(format!("decode_str panicked for byte 0x{:02X} under ECI {:?}: {} (stream {:?})", c.byte, c.eci, p, stream)),
    };
    match (&want, &got) {
        (Ok(w), Ok(g)) if w == g => {}
        (Err(()), Err(DataDecodingError::CharsetError)) => {}
        _ => {
            return fail(format!(
                "byte 0x{:02X} under ECI {:?}: decode_str returns {:?}, the character set's table says {} (stream {:?})",
                c.byte,
                c.eci,
                got,
                match &want {
                    Ok(w) => format!("{:?} (U+{:04X})", w, w.chars().next().map(|c| c as u32).unwrap_or(0)),
                    Err(()) => "charset error (control or undefined byte)".to_string(),
                },
                stream
            ))
        }
    }
    Verdict::Pass(Pass::new(format!("charset/eci{:?}{}/{}", c.eci, if c.macro_cw.is_some() { "/macro" } else { "" }, if want.is_ok() { "mapped" } else { "rejected" }), c.byte >= 0xA0 && (matches!(c.eci, Some(11) | Some(13)) || c.macro_cw.is_some())))
}

// ---------------------------------------------------------------------------------------------
// generated multi-segment payloads
// ---------------------------------------------------------------------------------------------

#[derive(Debug, Clone)]
pub struct EciPayload {
    /// (eci or None for "no designator, only allowed first", payload bytes, via base256)
    pub segs: Vec<(Option<u32>, Vec<u8>, bool)>,
    /// Some(236 | 237): Macro 05 / 06 codeword in first position
    pub macro_cw: Option<u8>,
}

impl Case for EciPayload {
    fn to_json(&self) -> Value {
        json!({"segments": self.segs.iter().map(|(e, p, b)| json!({"eci": e, "payload": hex(p), "via_base256": b})).collect::<Vec<_>>(), "macro": self.macro_cw})
    }
}

impl EciPayload {
    fn from_json(v: &Value) -> Option<Self> {
        Some(EciPayload {
            segs: v["segments"].as_array()?.iter().map(|s| Some((s["eci"].as_u64().map(|x| x as u32), unhex(s["payload"].as_str()?)?, s["via_base256"].as_bool()?))).collect::<Option<Vec<_>>>()?,
            macro_cw: v["macro"].as_u64().map(|x| x as u8),
        })
    }
}

pub fn check_payload(c: &EciPayload) -> Verdict {
    let mut stream = Vec::new();
    if let Some(m) = c.macro_cw {
        stream.push(m);
    }
    let mut want: Result<String, ()> = Ok(String::new());
    for (i, (eci, payload, b256)) in c.segs.iter().enumerate() {
        if let Some(e) = eci {
            stream.extend(eci_codewords(*e));
        } else if i > 0 {
            return Verdict::EngineBug("segment without designator after the first".into());
        }
        carry(payload, *b256, &mut stream);
        want = match (want, expected_text(*eci, payload)) {
            (Ok(mut a), Ok(b)) => {
                a.push_str(&b);
                Ok(a)
            }
            _ => Err(()),
        };
    }
    let want = macro_wrap(c.macro_cw, want);
    let got = match guard(|| datamatrix::data::decode_str(&stream)) {
        Ok(g) => g,
        Err(p) => return fail(format!("decode_str panicked: {} (case {}, stream {:?})", p, c.to_json(), stream)),
    };
    match (&want, &got) {
        (Ok(w), Ok(g)) if w == g => {}
        (Err(()), Err(DataDecodingError::CharsetError)) => {}
        _ => return fail(format!("decode_str returns {:?}, expected {:?} (Err(()) = charset error) for {} (stream {:?})", got, want, c.to_json(), stream)),
    }
    let invalid = want.is_err();
    Verdict::Pass(Pass::new(format!("payload/segs{}/{}", c.segs.len().min(4), if invalid { "rejected" } else { "accepted" }), c.segs.len() >= 2 || invalid))
}

fn g_utf8_string() -> BoxedStrategy<String> {
    vec(
        prop_oneof![
            3 => (0x20u32..0x7f),
            2 => (0xa0u32..0x100),
            2 => (0x100u32..0x800),
            2 => (0x800u32..0xd800),
            1 => (0xe000u32..0x10000),
            2 => (0x10000u32..0x110000),
            1 => (0u32..0x20),
            1 => (0x7fu32..0xa0),
        ]
        .prop_map(|c| char::from_u32(c).unwrap_or('?')),
        0..12,
    )
    .prop_map(|v| v.into_iter().collect())
    .boxed()
}

fn g_payload() -> BoxedStrategy<EciPayload> {
    let seg = (any::<u16>(), g_utf8_string(), vec(any::<u8>(), 0..10), any::<u16>(), any::<u8>(), any::<bool>()).prop_map(|(e, s, raw, mutate, mv, b256)| {
        let eci = [3u32, 11, 13, 26, 27, 26, 26][pick(e, 7)];
        // mostly a payload that is valid for the character set, sometimes (mutate % 8 == 1, 2) one
        // of the other kinds: the oracle decides what has to happen
        let kind = match mutate % 8 { 1 => 26, 2 => 3, 5 => 27, _ => eci };
        let mut payload: Vec<u8> = match kind {
            26 => s.into_bytes(),
            27 => raw.iter().map(|b| b & 0x7f).collect(),
            _ => raw.iter().map(|b| if charset::is_printable_byte(*b) { *b } else { b | 0xa0 }).collect(),
        };
        // every fourth segment gets one mutated byte (usually making it invalid)
        if mutate % 4 == 0 && !payload.is_empty() {
            let i = pick(mutate, payload.len());
            payload[i] = mv;
        }
        (Some(eci), payload, b256)
    });
    (vec(seg, 1..=4), any::<bool>(), any::<u8>(), any::<u16>())
        .prop_map(|(mut segs, drop_first, m, cut)| {
            // sometimes one segment is cut into two at an arbitrary byte (both halves keep the designator):
            // a multi-byte character split between two sections is malformed in each of them
            if m % 5 == 0 && segs.len() < 4 {
                let k = pick(cut, segs.len());
                let (e, p, b) = segs[k].clone();
                if p.len() >= 2 {
                    let at = 1 + pick(cut.rotate_left(7), p.len() - 1);
                    segs[k] = (e, p[..at].to_vec(), b);
                    segs.insert(k + 1, (e, p[at..].to_vec(), !b));
                }
            }
            if drop_first {
                // first segment without designator: default interpretation (Latin-1)
                segs[0].0 = None;
                segs[0].1 = segs[0].1.iter().map(|b| if charset::is_printable_byte(*b) { *b } else { b | 0xa0 }).collect();
            }
            EciPayload { segs, macro_cw: match m % 8 { 0 => Some(236), 1 => Some(237), _ => None } }
        })
        .boxed()
}

fn run(ctx: &Arc<Ctx>) {
    let blocks: Vec<EciBlock> = (0..1000).map(|i| EciBlock { start: i * 1000, len: 1000 }).collect();
    ctx.run_enumerated("eci-numbers", "eciblock", blocks, Some("all ECI numbers 0..=999999: written form and read-back"), check_eci_block);
    let des: Vec<DesignatorBlock> = (0..=255u8).map(|a| DesignatorBlock { a }).collect();
    ctx.run_enumerated("designators", "designator", des, Some("all designator sequences of 1 codeword, of 2 codewords with first codeword 0 or >= 128, and of 3 codewords with first codeword 0 or >= 192 (incl. all 2^20 three-codeword forms)"), check_designator_block);
    let mut bytes = Vec::new();
    for eci in [None, Some(0u32), Some(3), Some(11), Some(13), Some(26), Some(27)] {
        for b in 0..=255u8 {
            for via in [false, true] {
                for macro_cw in [None, Some(236u8), Some(237)] {
                    bytes.push(CharsetByte { eci, byte: b, via_base256: via, macro_cw });
                }
            }
        }
    }
    ctx.run_enumerated("charset-bytes", "charsetbyte", bytes, Some("256 byte values x {no ECI, 0, 3, 11, 13, 26, 27} x {ASCII/upper shift, Base256} x {no macro, Macro 05, Macro 06}"), check_charset_byte);
    ctx.run_generated("payloads", "payload", ctx.cases(1_500_000, 15_000_000), g_payload, check_payload);
}

fn replay(_ctx: &Ctx, kind: &str, case: &Value) -> Option<Verdict> {
    match kind {
        "eciblock" => Some(check_eci_block(&EciBlock { start: case["eci_start"].as_u64()? as u32, len: case["eci_len"].as_u64()? as u32 })),
        "designator" => Some(check_designator_block(&DesignatorBlock { a: case["first_designator_codeword"].as_u64()? as u8 })),
        "charsetbyte" => Some(check_charset_byte(&CharsetByte { eci: case["eci"].as_u64().map(|x| x as u32), byte: case["byte"].as_u64()? as u8, via_base256: case["via_base256"].as_bool()?, macro_cw: case["macro"].as_u64().map(|x| x as u8) })),
        "payload" => Some(check_payload(&EciPayload::from_json(case)?)),
        _ => None,
    }
}
