//! Observation helpers: run the crate's entry points under the panic guard and pair the result
//! with the reference decoder's view of the produced stream.

use crate::cases::*;
use crate::core::guard;
use datamatrix::data::DataEncodingError;
use datamatrix::DataMatrix;
use refimpl::codec::{ref_decode, Decoded, Mode, RefErr};

pub enum EncOutcome {
    Ok(DataMatrix),
    Refused(DataEncodingError),
    Panic(String),
}

pub fn encode_obs(c: &EncCase) -> EncOutcome {
    match guard(|| c.encode()) {
        Ok(Ok(dm)) => EncOutcome::Ok(dm),
        Ok(Err(e)) => EncOutcome::Refused(e),
        Err(p) => EncOutcome::Panic(p),
    }
}

/// R1 applied to the data codewords of a symbol.
pub fn r1(dm: &DataMatrix) -> Result<Decoded, RefErr> {
    ref_decode(dm.data_codewords())
}

/// Structure class of a decoded stream, used as class label.
pub fn stream_class(d: &Decoded) -> String {
    let mut s = String::new();
    if d.macro_cw.is_some() {
        s.push_str("macro+");
    }
    if d.fnc1_first {
        s.push_str("fnc1+");
    }
    if !d.ecis.is_empty() {
        s.push_str("eci+");
    }
    if d.latches.is_empty() {
        s.push_str("ascii-only");
    } else {
        let mut seen: Vec<Mode> = Vec::new();
        for l in &d.latches {
            if !seen.contains(l) {
                seen.push(*l);
            }
        }
        seen.sort();
        let names: Vec<String> = seen.iter().map(|m| format!("{:?}", m)).collect();
        s.push_str(&names.join("+"));
    }
    s
}

/// How the stream ends (end-of-data form), as seen by R1.
pub fn ending_class(d: &Decoded, n: usize) -> &'static str {
    let Some(last) = d.segs.last() else { return if d.pad_start < n { "empty+pad" } else { "empty" } };
    let padded = d.pad_start < n;
    match last.mode {
        Mode::Ascii => {
            // ASCII tail: after a non-ASCII segment without unlatch?
            if d.segs.len() >= 2 {
                let prev = &d.segs[d.segs.len() - 2];
                if prev.mode != Mode::Ascii && prev.mode != Mode::Base256 && prev.cw_end == last.cw_start && !padded {
                    return "implicit-ascii-tail";
                }
            }
            if padded { "ascii+pad" } else { "ascii-full" }
        }
        Mode::Base256 => if padded { "b256+pad" } else { "b256-to-end" },
        _ => {
            if padded { "latched+unlatch+pad" } else { "latched-to-end" }
        }
    }
}

pub fn list_class(mask: u64) -> &'static str {
    if mask == default_mask() {
        "list-default"
    } else if mask == ALL_MASK {
        "list-all"
    } else if mask.count_ones() == 1 {
        "list-single"
    } else if mask.count_ones() <= 4 {
        "list-few"
    } else {
        "list-subset"
    }
}

pub fn modes_class(m: u8) -> &'static str {
    if m == 63 {
        "modes-all"
    } else if m & 1 == 0 {
        "modes-no-ascii"
    } else if m.count_ones() == 1 {
        "modes-ascii-only"
    } else {
        "modes-subset"
    }
}
