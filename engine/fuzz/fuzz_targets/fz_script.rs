#![no_main]
// libFuzzer target "script": bytes -> case struct -> property oracles (see dmcheck::targets)
use libfuzzer_sys::fuzz_target;

fuzz_target!(|data: &[u8]| {
    dmcheck::targets::fuzz_entry("script", data);
});
