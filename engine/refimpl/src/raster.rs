//! R7 — even-odd rasteriser for relative axis-parallel paths (SVG `m h v z` semantics) and a
//! decoder for the Unicode half-block rendering.

#[derive(Debug, Clone, Copy, PartialEq, Eq)]
pub enum Seg {
    /// relative move (dx, dy); starts a new sub-path
    Move(i32, i32),
    Horizontal(i32),
    Vertical(i32),
    Close,
}

#[derive(Debug, Clone, PartialEq, Eq)]
pub enum PathError {
    ZeroLength(usize),
    OutOfBox(usize),
    MoveInsideOpenSubpath(usize),
    DiagonalClose(usize),
    NotClosedAtEnd,
    CloseWithoutSegments(usize),
}

/// Interpret `path` starting at (0, 0) (x to the right, y downwards) inside the box
/// [0, w] x [0, h] and return the even-odd fill as a row-major bool array of w*h unit squares.
///
/// Semantics (SVG / PDF): `Close` draws a straight line back to the start point of the current
/// sub-path and makes that start point the current point; a following relative `Move` is
/// therefore relative to the start of the sub-path just closed; drawing after a `Close`
/// without a `Move` starts a new sub-path at that same point.
pub fn fill_even_odd(path: &[Seg], w: usize, h: usize) -> Result<Vec<bool>, PathError> {
    // vertical unit edges: vedge[y][x] toggled for the edge from (x,y) to (x,y+1), x in 0..=w
    let mut vedge = vec![false; (w + 1) * h];
    let (wi, hi) = (w as i32, h as i32);
    let mut cur = (0i32, 0i32);
    let mut start = (0i32, 0i32);
    let mut open_segments = 0usize; // segments drawn in the current sub-path
    let in_box = |p: (i32, i32)| p.0 >= 0 && p.0 <= wi && p.1 >= 0 && p.1 <= hi;
    let mut toggle_vertical = |x: i32, y0: i32, y1: i32| {
        let (a, b) = if y0 < y1 { (y0, y1) } else { (y1, y0) };
        for y in a..b {
            let i = (y as usize) * (w + 1) + x as usize;
            vedge[i] = !vedge[i];
        }
    };
    for (i, s) in path.iter().enumerate() {
        match *s {
            Seg::Horizontal(d) => {
                if d == 0 {
                    return Err(PathError::ZeroLength(i));
                }
                cur.0 += d;
                if !in_box(cur) {
                    return Err(PathError::OutOfBox(i));
                }
                open_segments += 1;
            }
            Seg::Vertical(d) => {
                if d == 0 {
                    return Err(PathError::ZeroLength(i));
                }
                let y0 = cur.1;
                cur.1 += d;
                if !in_box(cur) {
                    return Err(PathError::OutOfBox(i));
                }
                toggle_vertical(cur.0, y0, cur.1);
                open_segments += 1;
            }
            Seg::Close => {
                if open_segments == 0 {
                    return Err(PathError::CloseWithoutSegments(i));
                }
                // a Close reached when the pen already is at the start point draws nothing; that is
                // legal SVG/PDF and renders identically, so it is accepted
                if cur.0 != start.0 && cur.1 != start.1 {
                    return Err(PathError::DiagonalClose(i));
                }
                if cur.0 == start.0 {
                    toggle_vertical(cur.0, cur.1, start.1);
                }
                cur = start;
                open_segments = 0;
            }
            Seg::Move(dx, dy) => {
                if open_segments != 0 {
                    return Err(PathError::MoveInsideOpenSubpath(i));
                }
                cur = (cur.0 + dx, cur.1 + dy);
                if !in_box(cur) {
                    return Err(PathError::OutOfBox(i));
                }
                start = cur;
            }
        }
    }
    if open_segments != 0 {
        return Err(PathError::NotClosedAtEnd);
    }
    // scan: a unit square (x, y) is inside iff the number of vertical edges crossed to its left
    // (edges at x' <= x in row y) is odd
    let mut out = vec![false; w * h];
    for y in 0..h {
        let mut inside = false;
        for x in 0..w {
            if vedge[y * (w + 1) + x] {
                inside = !inside;
            }
            out[y * w + x] = inside;
        }
        // the edge at x = w must close the row
        if vedge[y * (w + 1) + w] {
            inside = !inside;
        }
        debug_assert!(!inside);
    }
    Ok(out)
}

/// Decode the half-block rendering: each line holds two pixel rows.  Returns (width, rows) of
/// the decoded pixel grid including whatever border the rendering contains, or an error text.
pub fn decode_unicode(s: &str) -> Result<(usize, Vec<Vec<bool>>), String> {
    let mut rows: Vec<Vec<bool>> = Vec::new();
    let mut width = None;
    if !s.is_empty() && !s.ends_with('\n') {
        return Err("last line not terminated".into());
    }
    for line in s.split_terminator('\n') {
        let mut top = Vec::new();
        let mut bot = Vec::new();
        for ch in line.chars() {
            let (t, b) = match ch {
                ' ' => (false, false),
                '\u{2584}' => (false, true), // lower half block
                '\u{2580}' => (true, false), // upper half block
                '\u{2588}' => (true, true),  // full block
                other => return Err(format!("unexpected character {:?}", other)),
            };
            top.push(t);
            bot.push(b);
        }
        match width {
            None => width = Some(top.len()),
            Some(w) if w != top.len() => return Err("ragged lines".into()),
            _ => {}
        }
        rows.push(top);
        rows.push(bot);
    }
    Ok((width.unwrap_or(0), rows))
}

/// Topology statistics of a bitmap: (4-connected dark components, holes = 4-connected light
/// components not touching the outside (8-connectivity for light would merge diagonals; we use
/// 4-connected light regions of the padded image minus one), diagonal contacts).
pub fn topology(bits: &[bool], w: usize, h: usize) -> (usize, usize, usize) {
    let at = |x: i32, y: i32| -> bool {
        x >= 0 && y >= 0 && (x as usize) < w && (y as usize) < h && bits[y as usize * w + x as usize]
    };
    // dark components (4-conn)
    let mut seen = vec![false; w * h];
    let mut comps: usize = 0;
    for i in 0..w * h {
        if bits[i] && !seen[i] {
            comps += 1;
            let mut stack = vec![i];
            seen[i] = true;
            while let Some(p) = stack.pop() {
                let (x, y) = ((p % w) as i32, (p / w) as i32);
                for (dx, dy) in [(1, 0), (-1, 0), (0, 1), (0, -1)] {
                    let (nx, ny) = (x + dx, y + dy);
                    if at(nx, ny) {
                        let q = ny as usize * w + nx as usize;
                        if !seen[q] {
                            seen[q] = true;
                            stack.push(q);
                        }
                    }
                }
            }
        }
    }
    // light components of the padded image (4-conn), minus the outside one
    let (pw, ph) = (w + 2, h + 2);
    let light = |x: usize, y: usize| -> bool { !at(x as i32 - 1, y as i32 - 1) };
    let mut seen = vec![false; pw * ph];
    let mut lcomps: usize = 0;
    for i in 0..pw * ph {
        let (x, y) = (i % pw, i / pw);
        if light(x, y) && !seen[i] {
            lcomps += 1;
            let mut stack = vec![i];
            seen[i] = true;
            while let Some(p) = stack.pop() {
                let (x, y) = ((p % pw) as i32, (p / pw) as i32);
                for (dx, dy) in [(1, 0), (-1, 0), (0, 1), (0, -1)] {
                    let (nx, ny) = (x + dx, y + dy);
                    if nx >= 0 && ny >= 0 && (nx as usize) < pw && (ny as usize) < ph && light(nx as usize, ny as usize) {
                        let q = ny as usize * pw + nx as usize;
                        if !seen[q] {
                            seen[q] = true;
                            stack.push(q);
                        }
                    }
                }
            }
        }
    }
    // diagonal contacts: 2x2 windows with exactly the two diagonal cells dark
    let mut diag: usize = 0;
    for y in 0..h as i32 - 1 {
        for x in 0..w as i32 - 1 {
            let (a, b, c, d) = (at(x, y), at(x + 1, y), at(x, y + 1), at(x + 1, y + 1));
            if (a && d && !b && !c) || (b && c && !a && !d) {
                diag += 1;
            }
        }
    }
    (comps, lcomps.saturating_sub(1), diag)
}

#[cfg(test)]
mod tests {
    use super::*;
    #[test]
    fn square() {
        let p = [Seg::Horizontal(2), Seg::Vertical(2), Seg::Horizontal(-2), Seg::Close];
        assert_eq!(fill_even_odd(&p, 3, 2).unwrap(), vec![true, true, false, true, true, false]);
    }
    #[test]
    fn ring() {
        // 3x3 ring with hole via two sub-paths
        let p = [
            Seg::Horizontal(3), Seg::Vertical(3), Seg::Horizontal(-3), Seg::Close,
            Seg::Move(1, 1), Seg::Horizontal(1), Seg::Vertical(1), Seg::Horizontal(-1), Seg::Close,
        ];
        let f = fill_even_odd(&p, 3, 3).unwrap();
        assert_eq!(f, vec![true, true, true, true, false, true, true, true, true]);
        assert_eq!(topology(&f, 3, 3), (1, 1, 0));
    }
    #[test]
    fn errors() {
        assert_eq!(fill_even_odd(&[Seg::Horizontal(0)], 2, 2), Err(PathError::ZeroLength(0)));
        assert_eq!(fill_even_odd(&[Seg::Horizontal(3)], 2, 2), Err(PathError::OutOfBox(0)));
        assert_eq!(fill_even_odd(&[Seg::Horizontal(1), Seg::Vertical(1), Seg::Close], 2, 2), Err(PathError::DiagonalClose(2)));
        assert_eq!(fill_even_odd(&[Seg::Horizontal(1), Seg::Move(1, 0)], 2, 2), Err(PathError::MoveInsideOpenSubpath(1)));
    }
}
