//! R6 — symbol attribute table, transcribed from ISO/IEC 16022:2006 Table 7 (ECC 200 symbol
//! attributes) and ISO/IEC 21471:2020 Table 1 (DMRE).  Shares nothing with the crate under test.
//!
//! Columns: name, rows, cols, data codewords, error codewords (total), interleaved blocks,
//! data-region grid (vertical count = regions stacked top to bottom, horizontal count = regions
//! side by side), whether the size is part of ISO/IEC 16022 (as opposed to the DMRE extension).

#[derive(Debug, Clone, Copy, PartialEq, Eq)]
pub struct Sym {
    pub name: &'static str,
    pub rows: usize,
    pub cols: usize,
    pub data: usize,
    pub ec: usize,
    pub blocks: usize,
    /// number of data regions stacked vertically
    pub reg_v: usize,
    /// number of data regions side by side
    pub reg_h: usize,
    pub iso16022: bool,
}

const fn s(
    name: &'static str,
    rows: usize,
    cols: usize,
    data: usize,
    ec: usize,
    blocks: usize,
    reg_v: usize,
    reg_h: usize,
    iso16022: bool,
) -> Sym {
    Sym { name, rows, cols, data, ec, blocks, reg_v, reg_h, iso16022 }
}

/// All 48 symbol sizes (24 squares, 6 ISO 16022 rectangles, 18 DMRE rectangles).
pub const SYMBOLS: [Sym; 48] = [
    s("Square10", 10, 10, 3, 5, 1, 1, 1, true),
    s("Square12", 12, 12, 5, 7, 1, 1, 1, true),
    s("Square14", 14, 14, 8, 10, 1, 1, 1, true),
    s("Square16", 16, 16, 12, 12, 1, 1, 1, true),
    s("Square18", 18, 18, 18, 14, 1, 1, 1, true),
    s("Square20", 20, 20, 22, 18, 1, 1, 1, true),
    s("Square22", 22, 22, 30, 20, 1, 1, 1, true),
    s("Square24", 24, 24, 36, 24, 1, 1, 1, true),
    s("Square26", 26, 26, 44, 28, 1, 1, 1, true),
    s("Square32", 32, 32, 62, 36, 1, 2, 2, true),
    s("Square36", 36, 36, 86, 42, 1, 2, 2, true),
    s("Square40", 40, 40, 114, 48, 1, 2, 2, true),
    s("Square44", 44, 44, 144, 56, 1, 2, 2, true),
    s("Square48", 48, 48, 174, 68, 1, 2, 2, true),
    s("Square52", 52, 52, 204, 84, 2, 2, 2, true),
    s("Square64", 64, 64, 280, 112, 2, 4, 4, true),
    s("Square72", 72, 72, 368, 144, 4, 4, 4, true),
    s("Square80", 80, 80, 456, 192, 4, 4, 4, true),
    s("Square88", 88, 88, 576, 224, 4, 4, 4, true),
    s("Square96", 96, 96, 696, 272, 4, 4, 4, true),
    s("Square104", 104, 104, 816, 336, 6, 4, 4, true),
    s("Square120", 120, 120, 1050, 408, 6, 6, 6, true),
    s("Square132", 132, 132, 1304, 496, 8, 6, 6, true),
    s("Square144", 144, 144, 1558, 620, 10, 6, 6, true),
    s("Rect8x18", 8, 18, 5, 7, 1, 1, 1, true),
    s("Rect8x32", 8, 32, 10, 11, 1, 1, 2, true),
    s("Rect12x26", 12, 26, 16, 14, 1, 1, 1, true),
    s("Rect12x36", 12, 36, 22, 18, 1, 1, 2, true),
    s("Rect16x36", 16, 36, 32, 24, 1, 1, 2, true),
    s("Rect16x48", 16, 48, 49, 28, 1, 1, 2, true),
    // ISO/IEC 21471 (DMRE)
    s("Rect8x48", 8, 48, 18, 15, 1, 1, 2, false),
    s("Rect8x64", 8, 64, 24, 18, 1, 1, 4, false),
    s("Rect8x80", 8, 80, 32, 22, 1, 1, 4, false),
    s("Rect8x96", 8, 96, 38, 28, 1, 1, 4, false),
    s("Rect8x120", 8, 120, 49, 32, 1, 1, 6, false),
    s("Rect8x144", 8, 144, 63, 36, 1, 1, 6, false),
    s("Rect12x64", 12, 64, 43, 27, 1, 1, 4, false),
    s("Rect12x88", 12, 88, 64, 36, 1, 1, 4, false),
    s("Rect16x64", 16, 64, 62, 36, 1, 1, 4, false),
    s("Rect20x36", 20, 36, 44, 28, 1, 1, 2, false),
    s("Rect20x44", 20, 44, 56, 34, 1, 1, 2, false),
    s("Rect20x64", 20, 64, 84, 42, 1, 1, 4, false),
    s("Rect22x48", 22, 48, 72, 38, 1, 1, 2, false),
    s("Rect24x48", 24, 48, 80, 41, 1, 1, 2, false),
    s("Rect24x64", 24, 64, 108, 46, 1, 1, 4, false),
    s("Rect26x40", 26, 40, 70, 38, 1, 1, 2, false),
    s("Rect26x48", 26, 48, 90, 42, 1, 1, 2, false),
    s("Rect26x64", 26, 64, 118, 50, 1, 1, 4, false),
];

impl Sym {
    /// error codewords per interleaved block
    pub fn ec_per_block(&self) -> usize {
        self.ec / self.blocks
    }
    /// correction capacity per block
    pub fn t(&self) -> usize {
        self.ec_per_block() / 2
    }
    pub fn total(&self) -> usize {
        self.data + self.ec
    }
    pub fn is_square(&self) -> bool {
        self.rows == self.cols
    }
    /// height of the mapping matrix (without finder / alignment modules)
    pub fn map_rows(&self) -> usize {
        self.rows - 2 * self.reg_v
    }
    pub fn map_cols(&self) -> usize {
        self.cols - 2 * self.reg_h
    }
    /// data region height
    pub fn reg_rows(&self) -> usize {
        self.map_rows() / self.reg_v
    }
    pub fn reg_cols(&self) -> usize {
        self.map_cols() / self.reg_h
    }
    /// number of data codewords in interleaved block `b`
    pub fn block_data_len(&self, b: usize) -> usize {
        (self.data + self.blocks - 1 - b) / self.blocks
    }
    /// 2x2 fixed pattern in the lower right corner of the mapping matrix?
    pub fn has_corner_pattern(&self) -> bool {
        (self.map_rows() * self.map_cols()) % 8 == 4
    }
}

pub fn by_name(name: &str) -> Option<&'static Sym> {
    SYMBOLS.iter().find(|s| s.name == name)
}

pub fn index_of(name: &str) -> Option<usize> {
    SYMBOLS.iter().position(|s| s.name == name)
}

/// Sorted, de-duplicated data capacities.
pub fn capacities() -> Vec<usize> {
    let mut v: Vec<usize> = SYMBOLS.iter().map(|s| s.data).collect();
    v.sort_unstable();
    v.dedup();
    v
}

#[cfg(test)]
mod tests {
    use super::*;
    #[test]
    fn consistency() {
        for s in SYMBOLS.iter() {
            assert_eq!(s.ec % s.blocks, 0);
            let modules = s.map_rows() * s.map_cols();
            assert_eq!(modules / 8, s.total(), "{}", s.name);
            assert!(modules % 8 == 0 || modules % 8 == 4);
            assert_eq!(s.map_rows() % s.reg_v, 0);
            assert_eq!(s.map_cols() % s.reg_h, 0);
            let sum: usize = (0..s.blocks).map(|b| s.block_data_len(b)).sum();
            assert_eq!(sum, s.data);
        }
        assert_eq!(SYMBOLS.iter().filter(|s| s.iso16022).count(), 30);
        assert_eq!(by_name("Square144").unwrap().block_data_len(0), 156);
        assert_eq!(by_name("Square144").unwrap().block_data_len(8), 155);
    }
}
