//! Reference implementations (oracles) written from the standards; no dependency on the crate
//! under test.
pub mod charset;
pub mod codec;
pub mod gf;
pub mod place;
pub mod raster;
pub mod table;
