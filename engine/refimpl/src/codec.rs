//! R1 / R2 / R3 — independent ISO/IEC 16022 data codec written from §5.2 of the standard:
//!
//! * R1 `ref_decode`: reference decoder returning the bytes *and* the structure of the stream
//!   (segments, latches, pad start, macro / FNC1 / ECI headers).  Lenient where practice among
//!   real encoders differs (dangling shift before an unlatch or the end of the symbol, a lone
//!   unlatch in the last position).
//! * R2 `run_script`: script driven encoder that only emits uncontroversial standard forms.
//! * R3 `min_len`: minimal-length search over scripts (dynamic programme over ASCII-clean
//!   positions).  Its result is only ever used together with a witness stream from R2.

#[derive(Clone, Copy, PartialEq, Eq, Debug, Hash, PartialOrd, Ord)]
pub enum Mode {
    Ascii,
    C40,
    Text,
    X12,
    Edifact,
    Base256,
}

pub const ALL_MODES: [Mode; 6] = [Mode::Ascii, Mode::C40, Mode::Text, Mode::X12, Mode::Edifact, Mode::Base256];

impl Mode {
    pub fn bit(self) -> u8 {
        match self {
            Mode::Ascii => 1,
            Mode::C40 => 2,
            Mode::Text => 4,
            Mode::X12 => 8,
            Mode::Edifact => 16,
            Mode::Base256 => 32,
        }
    }
    pub fn latch(self) -> u8 {
        match self {
            Mode::Ascii => 0,
            Mode::C40 => 230,
            Mode::Base256 => 231,
            Mode::X12 => 238,
            Mode::Text => 239,
            Mode::Edifact => 240,
        }
    }
}

pub fn rand253(pos1: usize) -> u8 {
    // pad codeword for 1-based position
    let r = ((149 * pos1) % 253) + 1;
    let t = 129 + r;
    if t <= 254 {
        t as u8
    } else {
        (t - 254) as u8
    }
}

pub fn rand255(v: u8, pos1: usize) -> u8 {
    let r = ((149 * pos1) % 255) + 1;
    ((v as usize + r) % 256) as u8
}

pub fn unrand255(v: u8, pos1: usize) -> u8 {
    let r = ((149 * pos1) % 255) + 1;
    ((v as usize + 256 - r) % 256) as u8
}

/// C40 / Text values for one input byte
pub fn c40_values(text: bool, ch: u8) -> Vec<u8> {
    if ch >= 128 {
        let mut v = vec![1, 30];
        v.extend(c40_values(text, ch - 128));
        return v;
    }
    let (lower, upper) = (b'a'..=b'z', b'A'..=b'Z');
    match ch {
        b' ' => vec![3],
        b'0'..=b'9' => vec![ch - b'0' + 4],
        _ if !text && upper.contains(&ch) => vec![ch - b'A' + 14],
        _ if text && lower.contains(&ch) => vec![ch - b'a' + 14],
        0..=31 => vec![0, ch],
        33..=47 => vec![1, ch - 33],
        58..=64 => vec![1, ch - 58 + 15],
        91..=95 => vec![1, ch - 91 + 22],
        96 => vec![2, 0],
        _ if !text && (97..=127).contains(&ch) => vec![2, ch - 96],
        _ if text && upper.contains(&ch) => vec![2, ch - 64],
        123..=127 => vec![2, ch - 96],
        _ => unreachable!("{}", ch),
    }
}

pub fn x12_value(ch: u8) -> Option<u8> {
    Some(match ch {
        13 => 0,
        b'*' => 1,
        b'>' => 2,
        b' ' => 3,
        b'0'..=b'9' => ch - b'0' + 4,
        b'A'..=b'Z' => ch - b'A' + 14,
        _ => return None,
    })
}

pub fn edifact_ok(ch: u8) -> bool {
    (32..=94).contains(&ch)
}

pub fn pack3(a: u8, b: u8, c: u8) -> [u8; 2] {
    let v = 1600 * a as u32 + 40 * b as u32 + c as u32 + 1;
    [(v / 256) as u8, (v % 256) as u8]
}

// ---------------------------------------------------------------------------------------------
// Reference decoder
// ---------------------------------------------------------------------------------------------

#[derive(Debug, Clone, PartialEq, Eq)]
pub struct Seg {
    pub mode: Mode,
    /// index of first codeword of the segment payload (after latch)
    pub cw_start: usize,
    pub cw_end: usize,
    pub out_start: usize,
    pub out_end: usize,
}

#[derive(Debug, Clone, Default)]
pub struct Decoded {
    pub bytes: Vec<u8>,
    pub macro_cw: Option<u8>,
    pub fnc1_first: bool,
    pub ecis: Vec<(usize, u32)>,
    pub segs: Vec<Seg>,
    /// codeword index of the first pad (== len if none)
    pub pad_start: usize,
    /// latches seen in order
    pub latches: Vec<Mode>,
}

#[derive(Debug, Clone, PartialEq, Eq)]
pub struct RefErr(pub String);

fn err<T>(s: impl Into<String>) -> Result<T, RefErr> {
    Err(RefErr(s.into()))
}

/// Decode the data codewords of one complete symbol (cw.len() == symbol capacity).
/// Output excludes macro header/trailer expansion (reported in macro_cw) -- `bytes` is the body.
pub fn ref_decode(cw: &[u8]) -> Result<Decoded, RefErr> {
    let n = cw.len();
    let mut d = Decoded::default();
    d.pad_start = n;
    let mut i = 0usize;
    if n > 0 && (cw[0] == 236 || cw[0] == 237) {
        d.macro_cw = Some(cw[0]);
        i = 1;
    }
    if i < n && cw[i] == 232 && d.macro_cw.is_none() {
        d.fnc1_first = true;
        i += 1;
    }
    let mut mode = Mode::Ascii;
    while i < n {
        match mode {
            Mode::Ascii => {
                let out_start = d.bytes.len();
                let cw_start = i;
                let mut upper = false;
                let mut next = Mode::Ascii;
                let mut padded = false;
                while i < n {
                    let c = cw[i];
                    i += 1;
                    if upper {
                        if !(1..=128).contains(&c) {
                            return err(format!("upper shift followed by {}", c));
                        }
                        d.bytes.push(c - 1 + 128);
                        upper = false;
                        continue;
                    }
                    match c {
                        1..=128 => d.bytes.push(c - 1),
                        129 => {
                            d.pad_start = i - 1;
                            // rest must be randomised pads
                            while i < n {
                                if cw[i] != rand253(i + 1) {
                                    return err(format!("bad pad at {}: {} expected {}", i, cw[i], rand253(i + 1)));
                                }
                                i += 1;
                            }
                            padded = true;
                        }
                        130..=229 => {
                            let v = c - 130;
                            d.bytes.push(b'0' + v / 10);
                            d.bytes.push(b'0' + v % 10);
                        }
                        230 => next = Mode::C40,
                        231 => next = Mode::Base256,
                        232 => d.bytes.push(29),
                        235 => upper = true,
                        238 => next = Mode::X12,
                        239 => next = Mode::Text,
                        240 => next = Mode::Edifact,
                        241 => {
                            // ECI
                            let c1 = *cw.get(i).ok_or(RefErr("eci truncated".into()))? as u32;
                            i += 1;
                            let v = if (1..=127).contains(&c1) {
                                c1 - 1
                            } else if (128..=191).contains(&c1) {
                                let c2 = *cw.get(i).ok_or(RefErr("eci truncated".into()))? as u32;
                                i += 1;
                                if !(1..=254).contains(&c2) {
                                    return err("eci c2");
                                }
                                (c1 - 128) * 254 + (c2 - 1) + 127
                            } else if (192..=207).contains(&c1) {
                                let c2 = *cw.get(i).ok_or(RefErr("eci truncated".into()))? as u32;
                                let c3 = *cw.get(i + 1).ok_or(RefErr("eci truncated".into()))? as u32;
                                i += 2;
                                if !(1..=254).contains(&c2) || !(1..=254).contains(&c3) {
                                    return err("eci c2/c3");
                                }
                                (c1 - 192) * 64516 + (c2 - 1) * 254 + (c3 - 1) + 16383
                            } else {
                                return err("eci c1");
                            };
                            d.ecis.push((d.bytes.len(), v));
                        }
                        _ => return err(format!("illegal codeword {} in ASCII at {}", c, i - 1)),
                    }
                    if next != Mode::Ascii || padded {
                        break;
                    }
                }
                if upper {
                    return err("dangling upper shift");
                }
                let cw_end = if next != Mode::Ascii { i - 1 } else if padded { d.pad_start } else { i };
                if cw_end > cw_start {
                    d.segs.push(Seg { mode: Mode::Ascii, cw_start, cw_end, out_start, out_end: d.bytes.len() });
                }
                if next != Mode::Ascii {
                    d.latches.push(next);
                }
                mode = next;
            }
            Mode::C40 | Mode::Text => {
                let text = mode == Mode::Text;
                let out_start = d.bytes.len();
                let cw_start = i;
                let mut shift = 0u8;
                let mut upper = false;
                loop {
                    let rem = n - i;
                    if rem == 0 {
                        break;
                    }
                    if cw[i] == 254 {
                        i += 1;
                        break;
                    }
                    if rem == 1 {
                        // single trailing codeword: ASCII (implicit unlatch)
                        break;
                    }
                    let v = cw[i] as u32 * 256 + cw[i + 1] as u32;
                    if v == 0 {
                        return err("c40 pair value 0");
                    }
                    let v = v - 1;
                    let vals = [(v / 1600) as u8, ((v / 40) % 40) as u8, (v % 40) as u8];
                    if v / 1600 >= 40 {
                        return err("c40 pair out of range");
                    }
                    i += 2;
                    for x in vals {
                        let ch: Option<u8> = match shift {
                            0 => match x {
                                0..=2 => {
                                    shift = x + 1;
                                    None
                                }
                                3 => Some(b' '),
                                4..=13 => Some(b'0' + x - 4),
                                _ => Some(if text { b'a' } else { b'A' } + x - 14),
                            },
                            1 => {
                                shift = 0;
                                if x > 31 {
                                    return err("shift1 value > 31");
                                }
                                Some(x)
                            }
                            2 => {
                                shift = 0;
                                match x {
                                    0..=14 => Some(33 + x),
                                    15..=21 => Some(58 + x - 15),
                                    22..=26 => Some(91 + x - 22),
                                    27 => return err("FNC1 in C40 not supported by oracle"),
                                    30 => {
                                        upper = true;
                                        None
                                    }
                                    _ => return err("shift2 value illegal"),
                                }
                            }
                            _ => {
                                shift = 0;
                                if x > 31 {
                                    return err("shift3 value > 31");
                                }
                                Some(if text {
                                    match x {
                                        0 => 96,
                                        1..=26 => b'A' + x - 1,
                                        _ => 96 + x,
                                    }
                                } else {
                                    96 + x
                                })
                            }
                        };
                        if let Some(mut ch) = ch {
                            if upper {
                                ch += 128;
                                upper = false;
                            }
                            d.bytes.push(ch);
                        }
                    }
                }
                d.segs.push(Seg { mode, cw_start, cw_end: i, out_start, out_end: d.bytes.len() });
                mode = Mode::Ascii;
            }
            Mode::X12 => {
                let out_start = d.bytes.len();
                let cw_start = i;
                loop {
                    let rem = n - i;
                    if rem == 0 {
                        break;
                    }
                    if cw[i] == 254 {
                        i += 1;
                        break;
                    }
                    if rem == 1 {
                        break;
                    }
                    let v = cw[i] as u32 * 256 + cw[i + 1] as u32;
                    if v == 0 {
                        return err("x12 pair value 0");
                    }
                    let v = v - 1;
                    i += 2;
                    for x in [v / 1600, (v / 40) % 40, v % 40] {
                        let ch = match x {
                            0 => 13,
                            1 => b'*',
                            2 => b'>',
                            3 => b' ',
                            4..=13 => b'0' + (x as u8 - 4),
                            14..=39 => b'A' + (x as u8 - 14),
                            _ => return err("x12 value out of range"),
                        };
                        d.bytes.push(ch);
                    }
                }
                d.segs.push(Seg { mode, cw_start, cw_end: i, out_start, out_end: d.bytes.len() });
                mode = Mode::Ascii;
            }
            Mode::Edifact => {
                let out_start = d.bytes.len();
                let cw_start = i;
                'outer: loop {
                    let rem = n - i;
                    if rem == 0 {
                        break;
                    }
                    if rem <= 2 {
                        // implicit return to ASCII
                        break;
                    }
                    // read up to 3 codewords = 4 values
                    let mut bits: u32 = 0;
                    let mut have = 0;
                    for k in 0..4 {
                        // ensure enough bytes
                        let need_bytes = ((k + 1) * 6 + 7) / 8;
                        while have < need_bytes {
                            if i >= n {
                                return err("edifact truncated");
                            }
                            bits |= (cw[i] as u32) << (16 - 8 * have);
                            i += 1;
                            have += 1;
                        }
                        let val = ((bits >> (18 - 6 * k)) & 0x3f) as u8;
                        if val == 31 {
                            break 'outer;
                        }
                        d.bytes.push(if val & 0x20 != 0 { val } else { val | 0x40 });
                    }
                }
                d.segs.push(Seg { mode, cw_start, cw_end: i, out_start, out_end: d.bytes.len() });
                mode = Mode::Ascii;
            }
            Mode::Base256 => {
                let out_start = d.bytes.len();
                let cw_start = i;
                let d1 = unrand255(cw[i], i + 1) as usize;
                i += 1;
                let len = if d1 == 0 {
                    n - i
                } else if d1 < 250 {
                    d1
                } else {
                    if i >= n {
                        return err("b256 length truncated");
                    }
                    let d2 = unrand255(cw[i], i + 1) as usize;
                    i += 1;
                    250 * (d1 - 249) + d2
                };
                if i + len > n {
                    return err("b256 run exceeds symbol");
                }
                for _ in 0..len {
                    d.bytes.push(unrand255(cw[i], i + 1));
                    i += 1;
                }
                d.segs.push(Seg { mode, cw_start, cw_end: i, out_start, out_end: d.bytes.len() });
                mode = Mode::Ascii;
            }
        }
    }
    Ok(d)
}

impl Decoded {
    /// Message as the crate's decode_data returns it (macro expanded)
    pub fn message(&self) -> Vec<u8> {
        let mut v = Vec::new();
        match self.macro_cw {
            Some(236) => v.extend_from_slice(b"[)>\x1e05\x1d"),
            Some(237) => v.extend_from_slice(b"[)>\x1e06\x1d"),
            _ => {}
        }
        v.extend_from_slice(&self.bytes);
        if self.macro_cw.is_some() {
            v.extend_from_slice(b"\x1e\x04");
        }
        v
    }
}

// ---------------------------------------------------------------------------------------------
// Minimal length search (strict standard forms only)
// ---------------------------------------------------------------------------------------------

pub const INF: usize = usize::MAX / 4;

fn ascii_cost(ch: u8) -> usize {
    if ch < 128 {
        1
    } else {
        2
    }
}

/// One step of a witness script
#[derive(Debug, Clone, PartialEq, Eq)]
pub enum Step {
    /// ASCII single char
    A1,
    /// ASCII digit pair
    A2,
    /// FNC1 codeword (232) in a later position of an ASCII stretch: a GS1 field separator, transmitted
    /// as GS (the data byte at this position must be 29); never produced by the minimal-length search
    Fnc1,
    /// segment in `mode` covering `len` chars, closed with explicit unlatch (C40/Text/X12/EDIFACT) or
    /// explicit length (Base256)
    Seg(Mode, usize),
    /// final forms
    FinalC40Exact(Mode, usize),      // values%3==0, ends exactly at cap, no unlatch
    FinalC40Pad(Mode, usize),        // rule b: 2 values + pad 0, ends at cap
    FinalC40UnlatchAscii(Mode, usize), // rule c: len includes last char sent as unlatch+ascii, ends at cap
    FinalC40ImplicitAscii(Mode, usize), // rule d
    FinalX12Exact(usize),
    FinalX12ImplicitAscii(usize), // len includes last char sent as ASCII w/o unlatch
    /// as FinalC40ImplicitAscii / FinalX12ImplicitAscii, but the single ASCII codeword is a digit pair
    /// (len includes the two digits); never produced by the minimal-length search
    FinalC40ImplicitPair(Mode, usize),
    FinalX12ImplicitPair(usize),
    FinalEdifactExact(usize),     // len%4==0 and ends at cap (no unlatch)
    FinalEdifactAscii(usize, usize), // (edifact chars multiple of 4, ascii tail chars) tail in <=2 cw w/o unlatch; ends at cap or cap-? (space<=2)
    FinalBase256ToEnd(usize),     // length byte 0, ends at cap
}

/// min codewords to encode data[..] within exactly `cap` capacity (padding allowed), given `prefix` codewords already
/// used (macro / fnc1). Returns (length before padding, script).
pub fn min_len(data: &[u8], cap: usize, prefix: usize, modes: u8) -> Option<(usize, Vec<Step>)> {
    let n = data.len();
    // dp[i] = min cw used (incl prefix) having encoded data[..i], in ASCII mode (clean)
    let mut dp = vec![INF; n + 1];
    let mut back: Vec<Option<(usize, Step)>> = vec![None; n + 1];
    dp[0] = prefix;
    // best final
    let mut best: Option<(usize, usize, Step)> = None; // (total len, from i, step)
    let has = |m: Mode| modes & m.bit() != 0;
    // bit 0x40 of `modes`: the end-of-data forms that hand the last character(s) to ASCII count even if
    // ASCII is not among the enabled modes (they belong to the latched mode's own end-of-data rule)
    let fallback = has(Mode::Ascii) || modes & 0x40 != 0;

    // precompute c40/text values count
    let vals = |text: bool, ch: u8| c40_values(text, ch).len();

    for i in 0..=n {
        if dp[i] >= INF {
            continue;
        }
        let base = dp[i];
        if base > cap {
            continue;
        }
        if i == n {
            continue;
        }
        // ASCII moves
        if has(Mode::Ascii) {
            let c = base + ascii_cost(data[i]);
            if c < dp[i + 1] {
                dp[i + 1] = c;
                back[i + 1] = Some((i, Step::A1));
            }
            if i + 1 < n && data[i].is_ascii_digit() && data[i + 1].is_ascii_digit() {
                let c = base + 1;
                if c < dp[i + 2] {
                    dp[i + 2] = c;
                    back[i + 2] = Some((i, Step::A2));
                }
            }
        }
        // C40 / Text segments
        for (m, text) in [(Mode::C40, false), (Mode::Text, true)] {
            if !has(m) {
                continue;
            }
            let mut v = 0usize;
            for j in i..n {
                let lastv = vals(text, data[j]);
                v += lastv;
                let len = j + 1 - i;
                let body = base + 1 + 2 * (v / 3);
                if body > cap + 2 {
                    break;
                }
                if v % 3 == 0 {
                    // closed segment + unlatch
                    let c = body + 1;
                    if c < dp[j + 1] {
                        dp[j + 1] = c;
                        back[j + 1] = Some((i, Step::Seg(m, len)));
                    }
                    if j + 1 == n && body == cap {
                        upd(&mut best, body, i, Step::FinalC40Exact(m, len));
                    }
                    // complete triples, exactly one codeword left in the symbol, two digits left in the data:
                    // they are sent as that one ASCII codeword (a digit pair) without an unlatch.  (The crate's
                    // own encoder writes this form; the same shortcut for one character that would need a
                    // shift in this mode is decodable as well, but rule (d) of 5.2.5.2 speaks of one C40 value,
                    // so it is not counted as an encoding the crate has to find.)
                    if body + 1 == cap && fallback && j + 3 == n && data[n - 2].is_ascii_digit() && data[n - 1].is_ascii_digit() {
                        upd(&mut best, cap, i, Step::FinalC40ImplicitPair(m, len + 2));
                    }
                }
                if j + 1 == n {
                    if v % 3 == 2 && body + 2 == cap {
                        upd(&mut best, cap, i, Step::FinalC40Pad(m, len));
                    }
                    if v % 3 == 1 && lastv == 1 && fallback {
                        // one value (a single data char) remains (ASCII tail: only counted
                        // when ASCII is enabled, to stay conservative)
                        if body + 2 == cap {
                            upd(&mut best, cap, i, Step::FinalC40UnlatchAscii(m, len));
                        }
                        if body + 1 == cap {
                            upd(&mut best, cap, i, Step::FinalC40ImplicitAscii(m, len));
                        }
                    }
                }
            }
        }
        // X12
        if has(Mode::X12) {
            for j in i..n {
                if x12_value(data[j]).is_none() {
                    break;
                }
                let len = j + 1 - i;
                let body = base + 1 + 2 * (len / 3);
                if body > cap + 2 {
                    break;
                }
                if len % 3 == 0 {
                    let c = body + 1;
                    if c < dp[j + 1] {
                        dp[j + 1] = c;
                        back[j + 1] = Some((i, Step::Seg(Mode::X12, len)));
                    }
                    if j + 1 == n && body == cap {
                        upd(&mut best, body, i, Step::FinalX12Exact(len));
                    }
                    if body + 1 == cap && fallback && j + 3 == n && data[n - 2].is_ascii_digit() && data[n - 1].is_ascii_digit() {
                        upd(&mut best, cap, i, Step::FinalX12ImplicitPair(len + 2));
                    }
                }
            }
            // single trailing ASCII char without unlatch: segment of 3k native chars then one arbitrary 1-cw char at end
            // (handled: x12 len = 3k covering i..n-1, last char data[n-1] < 128)
            if n >= 1 && i <= n - 1 && fallback {
                let len = n - 1 - i;
                if len % 3 == 0 && len > 0 && data[i..n - 1].iter().all(|c| x12_value(*c).is_some()) && data[n - 1] < 128 {
                    let body = base + 1 + 2 * (len / 3);
                    if body + 1 == cap {
                        upd(&mut best, cap, i, Step::FinalX12ImplicitAscii(len + 1));
                    }
                }
            }
        }
        // EDIFACT
        if has(Mode::Edifact) {
            for j in i..n {
                if !edifact_ok(data[j]) {
                    break;
                }
                let len = j + 1 - i;
                // closed with unlatch value
                let cwn = ((len + 1) * 6 + 7) / 8;
                let c = base + 1 + cwn;
                if c > cap + 3 {
                    break;
                }
                // every EDIFACT group (the last one holds the unlatch value) must start with at
                // least 3 codewords left in the symbol, otherwise the stream is ambiguous
                let groups = (len + 1 + 3) / 4;
                let last_group_start = base + 1 + 3 * (groups - 1);
                let unambiguous = last_group_start + 3 <= cap;
                if unambiguous && c < dp[j + 1] {
                    dp[j + 1] = c;
                    back[j + 1] = Some((i, Step::Seg(Mode::Edifact, len)));
                }
                if len % 4 == 0 {
                    let body = base + 1 + 3 * (len / 4);
                    if j + 1 == n && body == cap {
                        upd(&mut best, body, i, Step::FinalEdifactExact(len));
                    }
                    // complete groups up to the end of the data and one or two codewords left in the symbol:
                    // no unlatch (what follows is read as ASCII, i.e. as padding)
                    if j + 1 == n && body < cap && cap - body <= 2 {
                        upd(&mut best, body, i, Step::FinalEdifactAscii(len, 0));
                    }
                    // ascii tail without unlatch: remaining chars j+1..n in ASCII, <= 2 cw, and cap - body <= 2
                    if body <= cap && cap - body <= 2 && n - (j + 1) <= 4 && j + 1 < n && fallback {
                        let tail = &data[j + 1..];
                        let t = ascii_greedy(tail);
                        if body + t <= cap {
                            upd(&mut best, body + t, i, Step::FinalEdifactAscii(len, tail.len()));
                        }
                    }
                }
            }
        }
        // Base256
        if has(Mode::Base256) {
            for j in i..n {
                let len = j + 1 - i;
                if len > 1555 {
                    break;
                }
                let c = base + 1 + if len < 250 { 1 } else { 2 } + len;
                if c > cap + 2 {
                    break;
                }
                if c < dp[j + 1] {
                    dp[j + 1] = c;
                    back[j + 1] = Some((i, Step::Seg(Mode::Base256, len)));
                }
                if j + 1 == n && base + 2 + len == cap {
                    upd(&mut best, cap, i, Step::FinalBase256ToEnd(len));
                }
            }
        }
    }
    // candidates: dp[n] (clean ASCII end; a trailing explicit unlatch may be dropped if it lands beyond... ignore)
    let mut result: Option<(usize, usize, Option<Step>)> = None;
    if dp[n] <= cap {
        result = Some((dp[n], n, None));
    }
    // dropping the final unlatch when a closed C40/Text/X12/EDIFACT-with-unlatch segment ends exactly at cap is covered by
    // Final*Exact above.
    if let Some((l, i, s)) = best {
        if l <= cap && result.as_ref().map_or(true, |r| l < r.0) {
            result = Some((l, i, Some(s)));
        }
    }
    let (l, mut i, fin) = result?;
    let mut script = Vec::new();
    if let Some(s) = fin {
        script.push(s);
    }
    while i > 0 {
        let (p, s) = back[i].clone().unwrap();
        script.push(s);
        i = p;
    }
    script.reverse();
    Some((l, script))
}

fn upd(best: &mut Option<(usize, usize, Step)>, total: usize, i: usize, s: Step) {
    if best.as_ref().map_or(true, |b| total < b.0) {
        *best = Some((total, i, s));
    }
}

pub fn ascii_greedy(d: &[u8]) -> usize {
    let mut i = 0;
    let mut c = 0;
    while i < d.len() {
        if i + 1 < d.len() && d[i].is_ascii_digit() && d[i + 1].is_ascii_digit() {
            i += 2;
            c += 1;
        } else {
            c += ascii_cost(d[i]);
            i += 1;
        }
    }
    c
}

// ---------------------------------------------------------------------------------------------
// Script encoder (produces the witness stream)
// ---------------------------------------------------------------------------------------------

pub fn emit_ascii(out: &mut Vec<u8>, ch: u8) {
    if ch < 128 {
        out.push(ch + 1)
    } else {
        out.push(235);
        out.push(ch - 127)
    }
}

fn emit_ascii_greedy(out: &mut Vec<u8>, d: &[u8]) {
    let mut i = 0;
    while i < d.len() {
        if i + 1 < d.len() && d[i].is_ascii_digit() && d[i + 1].is_ascii_digit() {
            out.push(130 + (d[i] - b'0') * 10 + (d[i + 1] - b'0'));
            i += 2;
        } else {
            emit_ascii(out, d[i]);
            i += 1;
        }
    }
}

fn emit_c40(out: &mut Vec<u8>, text: bool, d: &[u8], pad0: bool) {
    let mut vals: Vec<u8> = d.iter().flat_map(|c| c40_values(text, *c)).collect();
    if pad0 {
        vals.push(0);
    }
    assert!(vals.len() % 3 == 0);
    for t in vals.chunks(3) {
        out.extend_from_slice(&pack3(t[0], t[1], t[2]));
    }
}

fn emit_edifact(out: &mut Vec<u8>, d: &[u8], unlatch: bool) {
    let mut vals: Vec<u8> = d.iter().map(|c| c & 0x3f).collect();
    if unlatch {
        vals.push(31);
    }
    for q in vals.chunks(4) {
        let mut bits: u32 = 0;
        for (k, v) in q.iter().enumerate() {
            bits |= (*v as u32) << (18 - 6 * k);
        }
        let nb = (q.len() * 6 + 7) / 8;
        for k in 0..nb {
            out.push((bits >> (16 - 8 * k)) as u8);
        }
    }
}

fn emit_b256(out: &mut Vec<u8>, d: &[u8], to_end: bool) {
    let start = out.len();
    if to_end {
        out.push(0);
    } else if d.len() < 250 {
        out.push(d.len() as u8);
    } else {
        out.push((d.len() / 250 + 249) as u8);
        out.push((d.len() % 250) as u8);
    }
    out.extend_from_slice(d);
    for k in start..out.len() {
        out[k] = rand255(out[k], k + 1);
    }
}

/// Unpadded stream of a script.
pub fn script_stream(data: &[u8], script: &[Step], prefix: &[u8]) -> Vec<u8> {
    let mut out = prefix.to_vec();
    let mut i = 0;
    for s in script {
        match s {
            Step::A1 => {
                emit_ascii(&mut out, data[i]);
                i += 1;
            }
            Step::A2 => {
                out.push(130 + (data[i] - b'0') * 10 + (data[i + 1] - b'0'));
                i += 2;
            }
            Step::Fnc1 => {
                assert_eq!(data[i], 29);
                out.push(232);
                i += 1;
            }
            Step::Seg(m, len) => {
                out.push(m.latch());
                let d = &data[i..i + len];
                match m {
                    Mode::C40 | Mode::Text => {
                        emit_c40(&mut out, *m == Mode::Text, d, false);
                        out.push(254);
                    }
                    Mode::X12 => {
                        for t in d.chunks(3) {
                            out.extend_from_slice(&pack3(x12_value(t[0]).unwrap(), x12_value(t[1]).unwrap(), x12_value(t[2]).unwrap()));
                        }
                        out.push(254);
                    }
                    Mode::Edifact => emit_edifact(&mut out, d, true),
                    Mode::Base256 => emit_b256(&mut out, d, false),
                    Mode::Ascii => unreachable!(),
                }
                i += len;
            }
            Step::FinalC40Exact(m, len) => {
                out.push(m.latch());
                emit_c40(&mut out, *m == Mode::Text, &data[i..i + len], false);
                i += len;
            }
            Step::FinalC40Pad(m, len) => {
                out.push(m.latch());
                emit_c40(&mut out, *m == Mode::Text, &data[i..i + len], true);
                i += len;
            }
            Step::FinalC40UnlatchAscii(m, len) => {
                out.push(m.latch());
                emit_c40(&mut out, *m == Mode::Text, &data[i..i + len - 1], false);
                out.push(254);
                emit_ascii(&mut out, data[i + len - 1]);
                i += len;
            }
            Step::FinalC40ImplicitAscii(m, len) => {
                out.push(m.latch());
                emit_c40(&mut out, *m == Mode::Text, &data[i..i + len - 1], false);
                emit_ascii(&mut out, data[i + len - 1]);
                i += len;
            }
            Step::FinalC40ImplicitPair(m, len) => {
                out.push(m.latch());
                emit_c40(&mut out, *m == Mode::Text, &data[i..i + len - 2], false);
                out.push(130 + (data[i + len - 2] - b'0') * 10 + (data[i + len - 1] - b'0'));
                i += len;
            }
            Step::FinalX12ImplicitPair(len) => {
                out.push(238);
                for t in data[i..i + len - 2].chunks(3) {
                    out.extend_from_slice(&pack3(x12_value(t[0]).unwrap(), x12_value(t[1]).unwrap(), x12_value(t[2]).unwrap()));
                }
                out.push(130 + (data[i + len - 2] - b'0') * 10 + (data[i + len - 1] - b'0'));
                i += len;
            }
            Step::FinalX12Exact(len) => {
                out.push(238);
                for t in data[i..i + len].chunks(3) {
                    out.extend_from_slice(&pack3(x12_value(t[0]).unwrap(), x12_value(t[1]).unwrap(), x12_value(t[2]).unwrap()));
                }
                i += len;
            }
            Step::FinalX12ImplicitAscii(len) => {
                out.push(238);
                for t in data[i..i + len - 1].chunks(3) {
                    out.extend_from_slice(&pack3(x12_value(t[0]).unwrap(), x12_value(t[1]).unwrap(), x12_value(t[2]).unwrap()));
                }
                emit_ascii(&mut out, data[i + len - 1]);
                i += len;
            }
            Step::FinalEdifactExact(len) => {
                out.push(240);
                emit_edifact(&mut out, &data[i..i + len], false);
                i += len;
            }
            Step::FinalEdifactAscii(len, tail) => {
                out.push(240);
                emit_edifact(&mut out, &data[i..i + len], false);
                i += len;
                emit_ascii_greedy(&mut out, &data[i..i + tail]);
                i += tail;
            }
            Step::FinalBase256ToEnd(len) => {
                out.push(231);
                emit_b256(&mut out, &data[i..i + len], true);
                i += len;
            }
        }
    }
    assert_eq!(i, data.len());
    out
}

/// Fill up to the symbol capacity: pad codeword 129, then 253-state randomised pads.
pub fn pad_to(mut out: Vec<u8>, cap: usize) -> Vec<u8> {
    assert!(out.len() <= cap, "script output {} > cap {}", out.len(), cap);
    if out.len() < cap {
        out.push(129);
        while out.len() < cap {
            let p = out.len() + 1;
            out.push(rand253(p));
        }
    }
    out
}

pub fn run_script(data: &[u8], script: &[Step], prefix: &[u8], cap: usize) -> Vec<u8> {
    pad_to(script_stream(data, script, prefix), cap)
}


// ---------------------------------------------------------------------------------------------
// Headers
// ---------------------------------------------------------------------------------------------

pub const MACRO05_HEAD: &[u8] = b"[)>\x1e05\x1d";
pub const MACRO06_HEAD: &[u8] = b"[)>\x1e06\x1d";
pub const MACRO_TRAIL: &[u8] = b"\x1e\x04";

/// ECI codeword 241 followed by the designator of ISO/IEC 16022 §5.2.4.7 (Table 6):
/// 0..=126: one codeword n+1; 127..=16382: (n-127) div 254 + 128, (n-127) mod 254 + 1;
/// 16383..=999999: (n-16383) div 64516 + 192, ((n-16383) div 254) mod 254 + 1, (n-16383) mod 254 + 1.
pub fn eci_codewords(n: u32) -> Vec<u8> {
    assert!(n <= 999_999);
    let mut v = vec![241u8];
    if n <= 126 {
        v.push(n as u8 + 1);
    } else if n <= 16382 {
        let c = n - 127;
        v.push((c / 254 + 128) as u8);
        v.push((c % 254 + 1) as u8);
    } else {
        let c = n - 16383;
        v.push((c / 64516 + 192) as u8);
        v.push(((c / 254) % 254 + 1) as u8);
        v.push((c % 254 + 1) as u8);
    }
    v
}

/// If `input` is a complete macro 05 / 06 envelope, the macro codeword and the body.
pub fn macro_envelope(input: &[u8]) -> Option<(u8, &[u8])> {
    if input.len() < 9 || !input.ends_with(MACRO_TRAIL) {
        return None;
    }
    let cw = if input.starts_with(MACRO05_HEAD) {
        236
    } else if input.starts_with(MACRO06_HEAD) {
        237
    } else {
        return None;
    };
    Some((cw, &input[7..input.len() - 2]))
}

impl Decoded {
    /// number of codewords before padding
    pub fn unpadded_len(&self) -> usize {
        self.pad_start
    }

    /// Output positions (indices into `bytes`) carried by ASCII encodation.
    pub fn ascii_char_positions(&self) -> Vec<usize> {
        let mut v = Vec::new();
        for s in &self.segs {
            if s.mode == Mode::Ascii {
                v.extend(s.out_start..s.out_end);
            }
        }
        v
    }

    /// Modes that carry at least one character, in stream order, consecutive duplicates merged.
    pub fn modes_with_chars(&self) -> Vec<Mode> {
        let mut v: Vec<Mode> = Vec::new();
        for s in &self.segs {
            if s.out_end > s.out_start && v.last() != Some(&s.mode) {
                v.push(s.mode);
            }
        }
        v
    }
}

#[cfg(test)]
mod tests {
    use super::*;
    #[test]
    fn pads() {
        // ISO/IEC 16022 example: empty message in a 3 codeword symbol is 129 175 70
        assert_eq!(run_script(b"", &[], &[], 3), vec![129, 175, 70]);
        let d = ref_decode(&[129, 175, 70]).unwrap();
        assert_eq!(d.bytes, b"");
        assert_eq!(d.pad_start, 0);
    }
    #[test]
    fn c40_aim() {
        // "AIM" in C40: 230 91 11 (standard's example)
        let d = ref_decode(&[230, 91, 11]).unwrap();
        assert_eq!(d.bytes, b"AIM");
        assert_eq!(d.latches, vec![Mode::C40]);
    }
    #[test]
    fn edifact_data() {
        let d = ref_decode(&[240, 16, 21, 1]).unwrap();
        assert_eq!(d.bytes, b"DATA");
    }
    #[test]
    fn eci_forms() {
        assert_eq!(eci_codewords(0), vec![241, 1]);
        assert_eq!(eci_codewords(126), vec![241, 127]);
        assert_eq!(eci_codewords(127), vec![241, 128, 1]);
        assert_eq!(eci_codewords(16382), vec![241, 191, 254]);
        assert_eq!(eci_codewords(16383), vec![241, 192, 1, 1]);
        assert_eq!(eci_codewords(999_999), vec![241, 207, 63, 129]);
        for n in [0u32, 5, 126, 127, 300, 16382, 16383, 70000, 999_999] {
            let mut cw = eci_codewords(n);
            cw.push(66);
            let d = ref_decode(&cw).unwrap();
            assert_eq!(d.ecis, vec![(0, n)]);
            assert_eq!(d.bytes, b"A");
        }
    }
    #[test]
    fn min_len_witness() {
        for (data, cap) in [(&b"ABCDEFGH12345678"[..], 12usize), (b"AIMAIMAIM", 8), (b"\xab\xe4\xf6\xfc\xe9\xbb", 8)] {
            let (l, script) = min_len(data, cap, 0, 0x3f).unwrap();
            let w = run_script(data, &script, &[], cap);
            assert!(l <= cap);
            assert_eq!(ref_decode(&w).unwrap().bytes, data);
        }
    }
}
