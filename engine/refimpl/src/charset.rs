//! R8 — the 8-bit character sets reachable through ECI 3 / 11 / 13, generated from their
//! definitions (Unicode mapping files 8859-1.TXT, 8859-9.TXT, 8859-11.TXT).

/// "printable" in the sense of the crate's documentation: 0x20–0x7E and 0xA0–0xFF.
pub fn is_printable_byte(b: u8) -> bool {
    (0x20..=0x7E).contains(&b) || b >= 0xA0
}

/// ISO-8859-1: identity onto U+0000..U+00FF.
pub fn iso_8859_1(b: u8) -> char {
    b as char
}

/// ISO-8859-9 (Latin-5, Turkish): ISO-8859-1 with six replacements.
pub fn iso_8859_9(b: u8) -> char {
    match b {
        0xD0 => '\u{011E}', // LATIN CAPITAL LETTER G WITH BREVE
        0xDD => '\u{0130}', // LATIN CAPITAL LETTER I WITH DOT ABOVE
        0xDE => '\u{015E}', // LATIN CAPITAL LETTER S WITH CEDILLA
        0xF0 => '\u{011F}', // LATIN SMALL LETTER G WITH BREVE
        0xFD => '\u{0131}', // LATIN SMALL LETTER DOTLESS I
        0xFE => '\u{015F}', // LATIN SMALL LETTER S WITH CEDILLA
        _ => b as char,
    }
}

/// ISO-8859-11 (Thai): 0x00–0xA0 as ISO-8859-1, 0xA1–0xDA -> U+0E01.., 0xDF–0xFB -> U+0E3F..,
/// 0xDB–0xDE and 0xFC–0xFF undefined.
pub fn iso_8859_11(b: u8) -> Option<char> {
    match b {
        0x00..=0xA0 => Some(b as char),
        0xA1..=0xDA => char::from_u32(0x0E01 + (b as u32 - 0xA1)),
        0xDF..=0xFB => char::from_u32(0x0E3F + (b as u32 - 0xDF)),
        _ => None,
    }
}

/// What a string decoder has to produce for byte `b` under ECI `eci` (3, 11, 13):
/// `Some(ch)` for a printable, defined byte; `None` where the byte is a control or undefined
/// (the decoder must then report a charset error).
pub fn expected_char(eci: u32, b: u8) -> Option<char> {
    if !is_printable_byte(b) {
        return None;
    }
    match eci {
        0 | 3 => Some(iso_8859_1(b)),
        11 => Some(iso_8859_9(b)),
        13 => iso_8859_11(b),
        _ => panic!("not an 8 bit charset handled here"),
    }
}

#[cfg(test)]
mod tests {
    use super::*;
    #[test]
    fn thai() {
        assert_eq!(iso_8859_11(0xA1), Some('\u{0E01}'));
        assert_eq!(iso_8859_11(0xDA), Some('\u{0E3A}'));
        assert_eq!(iso_8859_11(0xDB), None);
        assert_eq!(iso_8859_11(0xDF), Some('\u{0E3F}'));
        assert_eq!(iso_8859_11(0xFB), Some('\u{0E5B}'));
        assert_eq!(iso_8859_11(0xFC), None);
    }
}
