//! R5 — module placement, transcribed from the C program of ISO/IEC 16022:2006 Annex F
//! (functions module / utah / corner1..4 / ecc200) with the one-line change of ISO/IEC 21471
//! (row wrap in `module`), plus the finder / clock / alignment geometry of §5.? "symbol structure".

use crate::table::Sym;

/// `Some((codeword index (0-based), bit (0 = most significant .. 7)))` or `None` for a module
/// that the placement leaves untouched (fixed corner pattern).
pub type Cell = Option<(u16, u8)>;

struct Placer {
    nrow: i32,
    ncol: i32,
    array: Vec<Cell>,
}

impl Placer {
    fn module(&mut self, mut row: i32, mut col: i32, chr: i32, bit: i32) {
        if row < 0 {
            row += self.nrow;
            col += 4 - ((self.nrow + 4) % 8);
        }
        if col < 0 {
            col += self.ncol;
            row += 4 - ((self.ncol + 4) % 8);
        }
        // ISO/IEC 21471: additional wrap needed for the DMRE formats
        if row >= self.nrow {
            row -= self.nrow;
        }
        assert!(row >= 0 && row < self.nrow && col >= 0 && col < self.ncol);
        // chr is 1-based, bit is 1 (MSB) .. 8 (LSB)
        self.array[(row * self.ncol + col) as usize] = Some(((chr - 1) as u16, (bit - 1) as u8));
    }
    fn utah(&mut self, row: i32, col: i32, chr: i32) {
        self.module(row - 2, col - 2, chr, 1);
        self.module(row - 2, col - 1, chr, 2);
        self.module(row - 1, col - 2, chr, 3);
        self.module(row - 1, col - 1, chr, 4);
        self.module(row - 1, col, chr, 5);
        self.module(row, col - 2, chr, 6);
        self.module(row, col - 1, chr, 7);
        self.module(row, col, chr, 8);
    }
    fn corner1(&mut self, chr: i32) {
        let (nrow, ncol) = (self.nrow, self.ncol);
        self.module(nrow - 1, 0, chr, 1);
        self.module(nrow - 1, 1, chr, 2);
        self.module(nrow - 1, 2, chr, 3);
        self.module(0, ncol - 2, chr, 4);
        self.module(0, ncol - 1, chr, 5);
        self.module(1, ncol - 1, chr, 6);
        self.module(2, ncol - 1, chr, 7);
        self.module(3, ncol - 1, chr, 8);
    }
    fn corner2(&mut self, chr: i32) {
        let (nrow, ncol) = (self.nrow, self.ncol);
        self.module(nrow - 3, 0, chr, 1);
        self.module(nrow - 2, 0, chr, 2);
        self.module(nrow - 1, 0, chr, 3);
        self.module(0, ncol - 4, chr, 4);
        self.module(0, ncol - 3, chr, 5);
        self.module(0, ncol - 2, chr, 6);
        self.module(0, ncol - 1, chr, 7);
        self.module(1, ncol - 1, chr, 8);
    }
    fn corner3(&mut self, chr: i32) {
        let (nrow, ncol) = (self.nrow, self.ncol);
        self.module(nrow - 3, 0, chr, 1);
        self.module(nrow - 2, 0, chr, 2);
        self.module(nrow - 1, 0, chr, 3);
        self.module(0, ncol - 2, chr, 4);
        self.module(0, ncol - 1, chr, 5);
        self.module(1, ncol - 1, chr, 6);
        self.module(2, ncol - 1, chr, 7);
        self.module(3, ncol - 1, chr, 8);
    }
    fn corner4(&mut self, chr: i32) {
        let (nrow, ncol) = (self.nrow, self.ncol);
        self.module(nrow - 1, 0, chr, 1);
        self.module(nrow - 1, ncol - 1, chr, 2);
        self.module(0, ncol - 3, chr, 3);
        self.module(0, ncol - 2, chr, 4);
        self.module(0, ncol - 1, chr, 5);
        self.module(1, ncol - 3, chr, 6);
        self.module(1, ncol - 2, chr, 7);
        self.module(1, ncol - 1, chr, 8);
    }
    fn filled(&self, row: i32, col: i32) -> bool {
        self.array[(row * self.ncol + col) as usize].is_some()
    }
    fn ecc200(&mut self) -> i32 {
        let (nrow, ncol) = (self.nrow, self.ncol);
        let mut chr = 1;
        let mut row = 4;
        let mut col = 0;
        loop {
            if row == nrow && col == 0 {
                self.corner1(chr);
                chr += 1;
            }
            if row == nrow - 2 && col == 0 && ncol % 4 != 0 {
                self.corner2(chr);
                chr += 1;
            }
            if row == nrow - 2 && col == 0 && ncol % 8 == 4 {
                self.corner3(chr);
                chr += 1;
            }
            if row == nrow + 4 && col == 2 && ncol % 8 == 0 {
                self.corner4(chr);
                chr += 1;
            }
            loop {
                if row < nrow && col >= 0 && !self.filled(row, col) {
                    self.utah(row, col, chr);
                    chr += 1;
                }
                row -= 2;
                col += 2;
                if !(row >= 0 && col < ncol) {
                    break;
                }
            }
            row += 1;
            col += 3;
            loop {
                if row >= 0 && col < ncol && !self.filled(row, col) {
                    self.utah(row, col, chr);
                    chr += 1;
                }
                row += 2;
                col -= 2;
                if !(row < nrow && col >= 0) {
                    break;
                }
            }
            row += 3;
            col += 1;
            if !(row < nrow || col < ncol) {
                break;
            }
        }
        chr - 1
    }
}

/// Placement table of a mapping matrix with `nrow` x `ncol` modules and the number of codewords
/// placed.
pub fn placement(nrow: usize, ncol: usize) -> (Vec<Cell>, usize) {
    let mut p = Placer { nrow: nrow as i32, ncol: ncol as i32, array: vec![None; nrow * ncol] };
    let n = p.ecc200();
    (p.array, n as usize)
}

/// Position in the complete symbol (finder included) of mapping-matrix module (r, c).
pub fn to_symbol_pos(sym: &Sym, r: usize, c: usize) -> (usize, usize) {
    (r + 1 + 2 * (r / sym.reg_rows()), c + 1 + 2 * (c / sym.reg_cols()))
}

/// Kind of every module of the complete symbol.
#[derive(Debug, Clone, Copy, PartialEq, Eq)]
pub enum ModuleKind {
    /// solid finder / alignment bar (always dark)
    Solid,
    /// clock track module (dark or light, fixed)
    Clock(bool),
    /// fixed 2x2 corner pattern module (value fixed)
    Corner(bool),
    /// bit of a codeword
    Data(u16, u8),
}

/// Full geometric description of a symbol: for each module (row-major, rows x cols) its kind.
pub fn layout(sym: &Sym) -> Vec<ModuleKind> {
    let (rows, cols) = (sym.rows, sym.cols);
    let (rr, rc) = (sym.reg_rows(), sym.reg_cols());
    let mut out = vec![ModuleKind::Solid; rows * cols];
    // finder geometry per region block of (rr+2) x (rc+2) modules
    for r in 0..rows {
        for c in 0..cols {
            let (br, bc) = (r % (rr + 2), c % (rc + 2));
            let kind = if bc == 0 || br == rr + 1 {
                // left bar and bottom bar of the region: solid dark
                ModuleKind::Solid
            } else if br == 0 {
                // top clock track: dark - light - dark ... starting dark above the left bar
                ModuleKind::Clock(bc % 2 == 0)
            } else if bc == rc + 1 {
                // right clock track: dark at the bottom, alternating upwards
                ModuleKind::Clock(br % 2 == 1)
            } else {
                continue;
            };
            out[r * cols + c] = kind;
        }
    }
    let (mr, mc) = (sym.map_rows(), sym.map_cols());
    let (table, n) = placement(mr, mc);
    assert_eq!(n, sym.total(), "{}", sym.name);
    for r in 0..mr {
        for c in 0..mc {
            let (sr, sc) = to_symbol_pos(sym, r, c);
            out[sr * cols + sc] = match table[r * mc + c] {
                Some((cw, bit)) => ModuleKind::Data(cw, bit),
                None => {
                    // "if the lower righthand corner is untouched, fill in fixed pattern":
                    // (nrow-1, ncol-1) and (nrow-2, ncol-2) dark, the other two light
                    let dark = (r == mr - 1 && c == mc - 1) || (r == mr - 2 && c == mc - 2);
                    ModuleKind::Corner(dark)
                }
            };
        }
    }
    out
}

/// Render a symbol from its complete codeword vector (data + error correction).
pub fn render(sym: &Sym, codewords: &[u8]) -> Vec<bool> {
    assert_eq!(codewords.len(), sym.total());
    layout(sym)
        .iter()
        .map(|k| match k {
            ModuleKind::Solid => true,
            ModuleKind::Clock(d) | ModuleKind::Corner(d) => *d,
            ModuleKind::Data(cw, bit) => (codewords[*cw as usize] >> (7 - bit)) & 1 == 1,
        })
        .collect()
}

/// Symbol coordinates (row, col) of the 8 modules of codeword `cw`, most significant bit first.
pub fn modules_of_codeword(sym: &Sym, lay: &[ModuleKind], cw: usize) -> [(usize, usize); 8] {
    let mut out = [(usize::MAX, usize::MAX); 8];
    for (i, k) in lay.iter().enumerate() {
        if let ModuleKind::Data(c, b) = k {
            if *c as usize == cw {
                out[*b as usize] = (i / sym.cols, i % sym.cols);
            }
        }
    }
    out
}

#[cfg(test)]
mod tests {
    use super::*;
    use crate::table::SYMBOLS;
    #[test]
    fn bijection() {
        for s in SYMBOLS.iter() {
            let (t, n) = placement(s.map_rows(), s.map_cols());
            assert_eq!(n, s.total());
            let mut seen = vec![0u8; n];
            let mut none = 0;
            for c in t.iter() {
                match c {
                    Some((cw, b)) => {
                        assert!(seen[*cw as usize] & (1 << b) == 0);
                        seen[*cw as usize] |= 1 << b;
                    }
                    None => none += 1,
                }
            }
            assert!(seen.iter().all(|x| *x == 0xff), "{}", s.name);
            assert_eq!(none, if s.has_corner_pattern() { 4 } else { 0 }, "{}", s.name);
        }
    }
    #[test]
    fn annex_f_10x10() {
        // Figure F.1 of ISO/IEC 16022 (8x8 mapping matrix), first row: 2.1 2.2 3.6 3.7 3.8 4.3 4.4 4.5
        let (t, _) = placement(8, 8);
        let row0: Vec<(u16, u8)> = t[..8].iter().map(|c| c.unwrap()).map(|(c, b)| (c + 1, b + 1)).collect();
        assert_eq!(row0, vec![(2, 1), (2, 2), (3, 6), (3, 7), (3, 8), (4, 3), (4, 4), (4, 5)]);
    }
}
