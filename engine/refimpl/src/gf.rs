//! R4 — GF(2^8) arithmetic modulo x^8+x^5+x^3+x^2+1 (0x12D) by shift-and-xor (no tables), the
//! Reed-Solomon code of ISO/IEC 16022 §5.7 / Annex E (generator with roots 2^1 .. 2^k), syndromes,
//! and a small linear solver used to construct words with prescribed syndromes.

use crate::table::Sym;

pub const POLY: u16 = 0x12D;

#[inline]
pub fn mul(a: u8, b: u8) -> u8 {
    let mut a = a as u16;
    let mut b = b;
    let mut r: u16 = 0;
    while b != 0 {
        if b & 1 != 0 {
            r ^= a;
        }
        a <<= 1;
        if a & 0x100 != 0 {
            a ^= POLY;
        }
        b >>= 1;
    }
    r as u8
}

pub fn pow(a: u8, mut e: usize) -> u8 {
    let mut base = a;
    let mut r = 1u8;
    while e > 0 {
        if e & 1 == 1 {
            r = mul(r, base);
        }
        base = mul(base, base);
        e >>= 1;
    }
    r
}

pub fn inv(a: u8) -> u8 {
    assert!(a != 0);
    // a^254
    pow(a, 254)
}

/// Evaluate the polynomial whose coefficients are given highest degree first.
pub fn eval_msb_first(coeffs: impl Iterator<Item = u8>, x: u8) -> u8 {
    let mut acc = 0u8;
    for c in coeffs {
        acc = mul(acc, x) ^ c;
    }
    acc
}

/// Codewords of interleaved block `b` (data part then error part) as indices into the full
/// codeword vector of the symbol.
pub fn block_indices(sym: &Sym, b: usize) -> Vec<usize> {
    let mut v: Vec<usize> = (b..sym.data).step_by(sym.blocks).collect();
    v.extend((sym.data + b..sym.total()).step_by(sym.blocks));
    v
}

/// The k syndromes S_j = c(2^j), j = 1..k of one block of `word` (first codeword = highest
/// degree coefficient).
pub fn block_syndromes(sym: &Sym, word: &[u8], b: usize) -> Vec<u8> {
    let idx = block_indices(sym, b);
    let k = sym.ec_per_block();
    (1..=k).map(|j| eval_msb_first(idx.iter().map(|i| word[*i]), pow(2, j))).collect()
}

/// true iff every block of `word` is a codeword of its RS code.
pub fn is_codeword(sym: &Sym, word: &[u8]) -> bool {
    assert_eq!(word.len(), sym.total());
    (0..sym.blocks).all(|b| block_syndromes(sym, word, b).iter().all(|s| *s == 0))
}

/// Generator polynomial prod_{j=1..k} (x - 2^j), highest degree first (monic, k+1 coefficients).
pub fn generator(k: usize) -> Vec<u8> {
    let mut g = vec![1u8];
    for j in 1..=k {
        let r = pow(2, j);
        let mut n = vec![0u8; g.len() + 1];
        for (i, c) in g.iter().enumerate() {
            n[i] ^= *c;
            n[i + 1] ^= mul(*c, r);
        }
        g = n;
    }
    g
}

/// Reference RS encoder (systematic: remainder of d(x) x^k divided by g), returns the
/// interleaved error codewords for `data` (length sym.data).
pub fn ref_encode(sym: &Sym, data: &[u8]) -> Vec<u8> {
    assert_eq!(data.len(), sym.data);
    let k = sym.ec_per_block();
    let g = generator(k);
    let mut out = vec![0u8; sym.ec];
    for b in 0..sym.blocks {
        let mut rem = vec![0u8; k];
        for i in (b..sym.data).step_by(sym.blocks) {
            let f = data[i] ^ rem[0];
            for j in 0..k {
                let next = if j + 1 < k { rem[j + 1] } else { 0 };
                rem[j] = next ^ mul(f, g[j + 1]);
            }
        }
        for (q, r) in rem.iter().enumerate() {
            out[b + q * sym.blocks] = *r;
        }
    }
    out
}

/// Solve A x = rhs over GF(256) (A is rows x cols, row-major).  Returns one solution (free
/// variables zero) or None if inconsistent.
pub fn solve(a: &[Vec<u8>], rhs: &[u8]) -> Option<Vec<u8>> {
    let rows = a.len();
    let cols = if rows == 0 { 0 } else { a[0].len() };
    let mut m: Vec<Vec<u8>> = a.iter().zip(rhs).map(|(r, b)| {
        let mut v = r.clone();
        v.push(*b);
        v
    }).collect();
    let mut pivots = Vec::new();
    let mut r = 0;
    for c in 0..cols {
        if r == rows {
            break;
        }
        let Some(p) = (r..rows).find(|i| m[*i][c] != 0) else { continue };
        m.swap(r, p);
        let iv = inv(m[r][c]);
        for x in m[r].iter_mut() {
            *x = mul(*x, iv);
        }
        for i in 0..rows {
            if i != r && m[i][c] != 0 {
                let f = m[i][c];
                let row_r = m[r].clone();
                for (x, y) in m[i].iter_mut().zip(row_r.iter()) {
                    *x ^= mul(f, *y);
                }
            }
        }
        pivots.push(c);
        r += 1;
    }
    for i in r..rows {
        if m[i][cols] != 0 {
            return None;
        }
    }
    let mut x = vec![0u8; cols];
    for (i, c) in pivots.iter().enumerate() {
        x[*c] = m[i][cols];
    }
    Some(x)
}

/// A non-zero codeword of one block (length n = block length) supported on exactly the given
/// k+1 positions (position 0 = first codeword of the block).  Minimum weight of an MDS code.
/// Returns the values at `positions`.
pub fn min_weight_codeword(n: usize, k: usize, positions: &[usize], first_value: u8) -> Vec<u8> {
    assert_eq!(positions.len(), k + 1);
    assert!(first_value != 0);
    // unknown values v_1..v_k at positions[1..], v_0 fixed; k equations S_j = 0
    let loc = |p: usize| pow(2, n - 1 - p); // X_p = alpha^(degree of position)
    let a: Vec<Vec<u8>> = (1..=k)
        .map(|j| positions[1..].iter().map(|p| pow(loc(*p), j)).collect())
        .collect();
    let rhs: Vec<u8> = (1..=k).map(|j| mul(first_value, pow(loc(positions[0]), j))).collect();
    let sol = solve(&a, &rhs).expect("vandermonde system is regular");
    let mut v = vec![first_value];
    v.extend(sol);
    v
}

#[cfg(test)]
mod tests {
    use super::*;
    use crate::table::SYMBOLS;
    #[test]
    fn field() {
        // alpha = 2 generates the multiplicative group
        let mut seen = [false; 256];
        let mut x = 1u8;
        for _ in 0..255 {
            assert!(!seen[x as usize]);
            seen[x as usize] = true;
            x = mul(x, 2);
        }
        assert_eq!(x, 1);
        for a in 1..=255u8 {
            assert_eq!(mul(a, inv(a)), 1);
        }
    }
    #[test]
    fn generator5() {
        // ISO/IEC 16022 Annex E, 5 check characters: 228 48 15 111 62 (given lowest order last)
        assert_eq!(generator(5), vec![1, 62, 111, 15, 48, 228]);
    }
    #[test]
    fn encode_is_codeword() {
        for s in SYMBOLS.iter() {
            let data: Vec<u8> = (0..s.data).map(|i| (i * 37 + 11) as u8).collect();
            let mut w = data.clone();
            w.extend(ref_encode(s, &data));
            assert!(is_codeword(s, &w), "{}", s.name);
        }
    }
    #[test]
    fn min_weight() {
        let n = 8;
        let k = 5;
        let pos = [0, 2, 3, 4, 6, 7];
        let v = min_weight_codeword(n, k, &pos, 7);
        let mut w = vec![0u8; n];
        for (p, x) in pos.iter().zip(v.iter()) {
            w[*p] = *x;
            assert!(*x != 0);
        }
        for j in 1..=k {
            assert_eq!(eval_msb_first(w.iter().copied(), pow(2, j)), 0);
        }
    }
}
