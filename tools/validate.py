#!/usr/bin/env python3
"""Validate MANIFEST.json and evidence/*.json against the schemas in /root/.vp (developer helper)."""
import json, sys, glob, os
import jsonschema
root = os.path.dirname(os.path.dirname(os.path.abspath(__file__)))
ok = True
def check(path, schema):
    global ok
    try:
        jsonschema.validate(json.load(open(path)), json.load(open(schema)))
        print("ok  ", path)
    except Exception as e:
        ok = False
        print("FAIL", path, str(e)[:400])
check(os.path.join(root, "MANIFEST.json"), "/root/.vp/MANIFEST.schema.json")
for f in sorted(glob.glob(os.path.join(root, "evidence", "C??.json"))):
    check(f, "/root/.vp/EVIDENCE.schema.json")
sys.exit(0 if ok else 1)
