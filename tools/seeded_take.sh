#!/bin/sh
# Developer tool: take one finished sub-agent mutant from its scratch worktree into seeded/<name>/,
# confirm it in the laboratory (tools/seeded_eval.sh) and, if it is a valid mutant (suite passes,
# demo fails with / passes without the change), run the owning check against /repo with the patch
# applied (tools/seeded_on_repo.sh).  Appends to the raw table of the round.
# usage: tools/seeded_take.sh <worktree> <name> "<IDs>" <round>
ROOT="$(cd "$(dirname "$0")/.." && pwd)"
WT="$1"; NAME="$2"; IDS="$3"; ROUND="$4"
[ -f "$WT/seeded_out/patch.diff" ] && [ -f "$WT/seeded_out/demo.rs" ] || { echo "no deliverables in $WT/seeded_out" >&2; exit 2; }
mkdir -p "$ROOT/seeded/$NAME"
cp "$WT/seeded_out/patch.diff" "$WT/seeded_out/demo.rs" "$ROOT/seeded/$NAME/"
cp "$WT/seeded_out/notes.md" "$ROOT/seeded/$NAME/" 2>/dev/null
LINE=$("$ROOT/tools/seeded_eval.sh" "$ROOT/seeded/$NAME" "$IDS" quick | tail -1)
# seeded_eval derives the name from the directory: seeded-<name>
LINE=$(printf '%s' "$LINE" | sed "s/\"name\":\"seeded-$NAME\"/\"name\":\"$NAME\"/")
printf '%s\n' "$LINE" >> "$ROOT/sensitivity/seeded_round${ROUND}_raw.jsonl"
printf '%s\n' "$LINE"
case "$LINE" in
  *'"suite":"pass","demo_clean":"pass","demo_mutant":"fail"'*)
    "$ROOT/tools/seeded_on_repo.sh" "$NAME" "$IDS" | tee -a "$ROOT/sensitivity/seeded_on_repo.jsonl" ;;
  *) echo "NOT A VALID MUTANT (kept out of the on-repo table)" ;;
esac
