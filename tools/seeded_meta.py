#!/usr/bin/env python3
"""Writes seeded/<name>/meta.json from tools/seeded_desc.json (what each mutant is and needs) and the
result tables sensitivity/seeded_lab.jsonl (scratch-worktree confirmation: suite passes, demo fails
with / passes without the change) and sensitivity/seeded_on_repo.jsonl (checks run against /repo with
the patch applied)."""
import json, os, re
ROOT = os.path.dirname(os.path.dirname(os.path.abspath(__file__)))
desc = json.load(open(os.path.join(ROOT, "tools", "seeded_desc.json")))
def load(p):
    out = {}
    if os.path.exists(p):
        for l in open(p):
            l = l.strip()
            if not l: continue
            try: d = json.loads(l)
            except Exception: continue
            out[d["name"]] = d
    return out
lab = load(os.path.join(ROOT, "sensitivity", "seeded_lab.jsonl"))
onrepo = load(os.path.join(ROOT, "sensitivity", "seeded_on_repo.jsonl"))
for name, entry in sorted(desc.items()):
    prop, what, needs = entry[:3]
    note = entry[3] if len(entry) > 3 else None
    d = os.path.join(ROOT, "seeded", name)
    if not os.path.isdir(d): continue
    l = lab.get(name, {}); r = onrepo.get(name, {})
    meta = {
        "name": name, "property": prop, "breaks": what, "needs_to_manifest": needs,
        "author": "independent sub-agent given only the property text and a scratch worktree of /repo",
        "confirmed_in_scratch_worktree": {"existing_suite_with_change": l.get("suite"), "demo_with_change": l.get("demo_mutant"), "demo_without_change": l.get("demo_clean"),
                                         "how": "tools/seeded_eval.sh: cargo test --workspace (suite), cargo test --test seeded_demo with and without patch.diff"},
        "checks_against_repo_with_patch_applied": {k: {"exit": v["rc"], "first_report": v.get("first", "")} for k, v in r.get("results", {}).items()},
        "how_run": "tools/seeded_on_repo.sh %s: git -C /repo apply patch.diff; ./bin/check <ID> quick; git -C /repo checkout -- ." % name,
        "caught_by": sorted(k for k, v in r.get("results", {}).items() if v["rc"] == 1),
    }
    if note:
        meta["note"] = note
    json.dump(meta, open(os.path.join(d, "meta.json"), "w"), indent=1, ensure_ascii=False)
print("meta.json written for", sum(1 for n in desc if os.path.isdir(os.path.join(ROOT, "seeded", n))), "mutants")
