#!/usr/bin/env python3
"""Developer tool: turn a VERIF_C10_DUMP file into open known-findings entries for the fixed corpus of C10.
Usage: tools/c10_findings.py dump.json   (rewrites the C10 open entries of known_findings.json)
It is never run by a check; the checks only read known_findings.json."""
import json, sys, os
root = os.path.dirname(os.path.dirname(os.path.abspath(__file__)))
dump = json.load(open(sys.argv[1]))
kf_path = os.path.join(root, "known_findings.json")
kf = json.load(open(kf_path))
kf["findings"] = [f for f in kf["findings"] if not (f["property"] == "C10" and f["status"] == "open")]
kf["findings"].append({
    "property": "C10", "status": "open", "defect": "D13",
    "signature": "D13-family:planner-search-not-exhaustive",
    "what": "planner search is not exhaustive (one candidate per (start mode, current mode) irrespective of the phase inside a C40/Text/X12 triple or EDIFACT quad, phase-blind dominance rule): for some inputs a larger symbol is chosen than a standard-conformant encoding needs. Inputs outside the fixed corpus are attributed to this finding only by the mechanical test described in DESIGN.md (planner priced the plan it selected, encoder realised it, list lookup right, and the planner's own cost model - asked through hook H3 to price the witness's mode path and the single-mode alternatives - either cannot follow the path or prices it as fitting the smaller symbol).",
})
n = 0
seen = set()
for e in dump:
    if e.get("stage") != "Corpus" or e["signature"] in seen:
        continue
    seen.add(e["signature"])
    c = e["case"]
    data = bytes.fromhex(c["data"])
    kf["findings"].append({
        "property": "C10", "status": "open", "defect": "D13",
        "signature": e["signature"], "kind": "enc", "case": c,
        "what": "input %r (symbols %s, %d modes): symbol with %s data codewords chosen, a conformant encoding of %d codewords fits capacity %d" % (
            data, c["symbols"] if isinstance(c["symbols"], str) else "list", len(c["modes"]), e["crate_capacity"], e["witness_len"], e["witness_capacity"]),
    })
    n += 1
json.dump(kf, open(kf_path, "w"), indent=1)
print("wrote", n, "corpus entries + family entry")
