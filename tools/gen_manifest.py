#!/usr/bin/env python3
"""Regenerates /verif/MANIFEST.json from the table below (single source of truth for the
interface; edit here, run, commit)."""
import json, os, subprocess

ROOT = os.path.dirname(os.path.dirname(os.path.abspath(__file__)))

# id -> (technique, level text, level note, design ref)
CHECKS = {
    "C01": ("property-based round trip (proptest, 16 shards) with an independent reference decoder as second oracle; coverage-guided libFuzzer stage in thorough",
            "Exploration: generated (input, symbol list, mode subset, macro, FNC1) cases; every successful encoding is decoded through the pixel path and the codeword path and by an independent ISO/IEC 16022 reference decoder, all three must return the input. Universally quantified inverse law over an unbounded space, so exploration with measured strata is the achievable level.",
            "Trusted: reference decoder R1 (refimpl/codec.rs, transcribed from the standard, cross-checked on crate output and standard examples); proptest RNG; encoder refusals/panics are C11's.",
            "DESIGN.md §5 C01"),
    "C02": ("property-based conformance check: independent ISO/IEC 16022 decoder + structural stream parser over generated configurations",
            "Exploration: every successful encoding is parsed by the independent reference decoder which checks symbol membership, codeword counts against Table 7, exact consumption of all fields, pad 129 + 253-state pads reached in ASCII mode, and equality of the decoded message, ECI and headers with the request.",
            "Trusted: R1/R6 transcriptions of the standard.",
            "DESIGN.md §5 C02"),
    "C03": ("fault injection within the correction radius: generated + enumerated error patterns at codeword and module level, exact restoration oracle",
            "Fault enumeration/exploration: all single-codeword error positions of all 48 sizes are enumerated, multi-error patterns up to floor(k/2) per block are generated with strata for EC region of block>=1, full-capacity blocks and odd-k sizes; decode_error must restore the complete vector, DataMatrix::decode on flipped modules must return the message (module addresses from the independent placement).",
            "Trusted: reference placement R5 for module addresses, R6 for block structure.",
            "DESIGN.md §5 C03"),
    "C04": ("program-indexed property-based test: random mode-switch scripts executed by an independent reference encoder, crate decoder must return the input",
            "Exploration: (input, segmentation into mode runs, termination form, capacity, header) scripts are constructed, encoded by the reference script encoder R2, self-checked with R1 and fed to decode_data / decode_str.",
            "Trusted: R2 emits only uncontroversial standard forms (self-checked by R1 on every case; a self-check failure is exit 2, never a violation).",
            "DESIGN.md §5 C04"),
    "C05": ("robustness fuzzing: structured proptest generators + enumerated boundary streams for all decode entry points in two build profiles (release, release+overflow checks+debug assertions); libFuzzer stage in thorough",
            "Exploration: no decode entry point may unwind; termination by watchdog with isolated re-run. Inputs are aimed at the measure-small regions (zero syndrome prefixes, zero locator coefficients, EC-region errors of block>=1, C40 pair 0/0, ECI designator edges, charset table edges).",
            "Trusted: panic = unwind observed through catch_unwind in both profiles; hang = 60 s watchdog confirmed in an isolated child process.",
            "DESIGN.md §5 C05"),
    "C06": ("algebraic oracle over enumerated unit vectors + generated data: independent shift-xor GF(256) syndromes of every interleaved block",
            "Exploration with an exhaustive linear basis: every unit vector of every size (the code is linear) plus random vectors; all k syndromes of every block zero, counts per Table 7, equality with a reference systematic encoder.",
            "Trusted: R4 field arithmetic (checked against the standard's degree-5 generator), R6 block table.",
            "DESIGN.md §5 C06"),
    "C07": ("exhaustive differential test against the Annex F placement program (tagging Bit type) + generated codeword vectors",
            "Exhaustive for the (size, codeword, bit) -> module map: all 48 sizes are compared module by module with the transcription of the standard's placement program; value path and inverse checked on generated and enumerated single-bit vectors.",
            "Trusted: transcription of Annex F / ISO 21471 (checked against the standard's 8x8 figure).",
            "DESIGN.md §5 C07"),
    "C08": ("round trip + converse property over generated and enumerated pixel arrays (every finder/clock/alignment/corner module deviation)",
            "Exploration with enumerated single-module deviations: rendering equals the reference renderer; parse(render(x)) = x; any accepted array re-renders to itself; width 0 / bad length / unknown dimensions give the documented errors.",
            "Trusted: reference finder geometry R5/R6.",
            "DESIGN.md §5 C08"),
    "C09": ("fault injection beyond the correction radius incl. constructed near-miss words from minimum-weight codewords; oracle: Ok implies all syndromes zero",
            "Exploration: random words, codeword + >t errors, constructed words at distance exactly t from another codeword, zero-syndrome-prefix words; whenever decode_error returns Ok the result must be a codeword by independent syndromes and by re-encoding.",
            "Trusted: R4 arithmetic and linear solver.",
            "DESIGN.md §5 C09"),
    "C10": ("differential test against a reference minimal-length search with verified witness streams; fixed corpus with exact known-finding list; planner cost model cross-examined through hook H3 (price of the witness path); exact-fit generator; libFuzzer stage in thorough",
            "Exploration: crate's symbol choice is compared with ASCII/Base256 bounds and with a reference DP over standard forms; a violation needs a witness stream accepted by two independent decoders. Known non-exhaustiveness of the planner is listed input by input on a fixed corpus.",
            "Trusted: R2/R3 (a shorter encoding only counts with a witness both decoders accept); hooks H1 (planner statistics) and H3 (forced-path pricing) for the attribution of seeded-exploration cases to the open finding D13.",
            "DESIGN.md §5 C10"),
    "C11": ("robustness property-based test of all encoding entry points in two build profiles, error classification oracle",
            "Exploration: no unwind, SymbolListEmpty iff the list is empty, every other refusal TooMuchOrIllegalData, over inputs x lists (incl. empty/single) x 64 mode subsets x macro x FNC1 x ECI.",
            "Trusted: catch_unwind observation in both profiles; watchdog for termination.",
            "DESIGN.md §5 C11"),
    "C12": ("exhaustive table comparison + enumerated range filters + generated filter chains against a set-model",
            "Exhaustive for the 48x attributes table and for all width/height ranges with bounds 0..=150 in 8 RangeBounds shapes; generated filter chains and white-lists against a bit-mask model; 'first large enough' checked on generated encodings.",
            "Trusted: R6 transcription of ISO/IEC 16022 Table 7 / ISO 21471 Table 1.",
            "DESIGN.md §5 C12"),
    "C13": ("property-based structural check of the produced stream with a mode-tracking reference decoder",
            "Exploration: latches found by the reference decoder must be enabled modes; ASCII-carried characters with ASCII disabled only as the standard's end-of-data fallback.",
            "Trusted: R1 segment structure.",
            "DESIGN.md §5 C13"),
    "C14": ("string round trip over stratified Unicode generators + exhaustive scalar-value / byte enumeration of the Latin-1 helpers",
            "Exploration + exhaustive helper tables: decode_str(encode_str(s)) = s, ECI presence rule via the reference decoder, helpers checked for every scalar value and byte.",
            "Trusted: R1, core::str UTF-8 validation.",
            "DESIGN.md §5 C14"),
    "C15": ("exhaustive enumeration of 10^6 ECI numbers (write + read back), designator sequences, and 256 bytes x 5 charsets against generated tables",
            "Exhaustive over the finite domains named in the property; 3-byte designators exhaustive in thorough.",
            "Trusted: R8 charset tables generated from the definitions of ISO-8859-1/-9/-11; hook decode_parts for read-back.",
            "DESIGN.md §5 C15"),
    "C16": ("property-based iff-check of macro compaction with enumerated lengths around the thresholds",
            "Exploration: first codeword in {236,237} iff the documented condition; body and round trip via reference and crate decoder; FNC1 start.",
            "Trusted: R1.",
            "DESIGN.md §5 C16"),
    "C17": ("differential test of path()/pixels()/unicode() against an independent even-odd rasteriser over generated bitmaps with measured topology",
            "Exploration: generated arbitrary and structured bitmaps + encoded symbols of all sizes; path must rasterise to exactly the bitmap under SVG semantics.",
            "Trusted: R7 rasteriser.",
            "DESIGN.md §5 C17"),
    "C18": ("coupling invariant between planner and encoder checked on generated inputs via hook H1 and the reference decoder",
            "Exploration: plan exists when encodable (encoder succeeds, or an always-legal plain Base256 / plain ASCII witness computed by the harness fits, for those two mode sets), enumerated Base256 fields at their limits, plan well-formed, latch sequence equals plan's non-ASCII modes, symbol used <= symbol predicted from the planner's chosen cost.",
            "Trusted: hook H1 (planner statistics), R1.",
            "DESIGN.md §5 C18"),
    "C19": ("work-bound check by instrumented counters (hooks H1, H4) on adversarial generated inputs up to the maximal length",
            "Exploration: steps <= 216(n+1)+6, live plans <= 36, iterations <= n+1 for adversarial alternations; no stopwatch.",
            "Trusted: hook H1 counters; hook H4 (step budget, 4x the bound) ends a planner run that already violates the bound.",
            "DESIGN.md §5 C19"),
}

CLAIMED = os.environ.get("CLAIMED", "").split() or [l.strip() for l in open(os.path.join(ROOT, "tools", "claimed.txt")) if l.strip()]
LEVEL_CATEGORY = {}

def hook_commits():
    try:
        out = subprocess.check_output(["git", "-C", "/repo", "log", "--format=%H %s"], text=True)
        return [l.split()[0] for l in out.splitlines() if l.split(" ", 1)[1].startswith("verif hooks")]
    except Exception:
        return []

manifest = {
    "version": 1,
    "setup_cmd": "./bin/setup",
    "hooks": {
        "guard": "cargo feature verif_hooks",
        "enable": "engine/dmcheck/Cargo.toml depends on datamatrix = { path = \"/repo\", features = [\"verif_hooks\"] }",
        "baseline_off_cmd": "cd /repo && cargo test --workspace --no-fail-fast --offline",
        "source_commits": hook_commits(),
        "add_only": True,
    },
    "engines": [
        {"name": "dmcheck", "path": "engine/dmcheck", "serves_properties": sorted(CLAIMED),
         "kind_free_text": "property-based testing engine: proptest strategies sharded over 16 threads, enumerated sub-domains, shrinking to replay files, class histograms in evidence"},
        {"name": "dmfuzz", "path": "engine/fuzz", "serves_properties": sorted(CLAIMED),
         "kind_free_text": "cargo-fuzz / libFuzzer targets (enc, stream, rs, bitmap, script; built with overflow checks and debug assertions, without ASan because the crate has no unsafe code) that decode bytes into the same case structs and call the same property functions; thorough tier runs a campaign per property, both tiers replay the committed corpus /verif/corpus/<target>"},
        {"name": "refimpl", "path": "engine/refimpl", "serves_properties": sorted(CLAIMED),
         "kind_free_text": "independent oracles written from ISO/IEC 16022 / 21471: data codec, GF(256)/RS, Annex F placement, symbol table, rasteriser, charsets"},
    ],
    "checks": [],
    "not_applicable": [],
    "notes": "exit codes: 0 held, 1 VIOLATION, 2 inconclusive (watchdog/tooling/oracle self-check). Seeds: VERIF_SEED. Replay: bin/replay <ID> <file>. Known findings: known_findings.json.",
}
FUZZ = {"C01": "enc", "C02": "enc", "C03": "rs", "C04": "script", "C05": "stream, rs, bitmap", "C06": "rs", "C07": "bitmap", "C08": "bitmap", "C09": "rs", "C10": "enc",
        "C11": "enc", "C12": "enc", "C13": "enc", "C14": "enc", "C15": "stream", "C16": "enc", "C17": "bitmap", "C18": "enc", "C19": "enc"}
for pid in sorted(CHECKS):
    tech, text, note, ref = CHECKS[pid]
    tech = tech.replace("; coverage-guided libFuzzer stage in thorough", "").replace("; libFuzzer stage in thorough", "")
    tech += "; committed libFuzzer corpus (target %s) replayed through the same oracle in both tiers, coverage-guided libFuzzer campaign with the oracle inside the target in the thorough tier" % FUZZ[pid]
    note += " Resource limits: 60 s per case, 10 GB RSS, 24 GiB address space; exceeding them is exit 2 (inconclusive)" + (", for this property exit 1 only after an isolated re-run exceeds them again." if pid in ("C05", "C11") else ".")
    if pid in CLAIMED:
        manifest["checks"].append({
            "property_id": pid,
            "quick_cmd": f"./bin/check {pid} quick",
            "thorough_cmd": f"./bin/check {pid} thorough",
            "evidence_file": f"/verif/evidence/{pid}.json",
            "replay_cmd_template": f"./bin/replay {pid} {{path}}",
            "engine": "dmcheck",
            "level_claimed": {"category": LEVEL_CATEGORY.get(pid, "exploration"), "text": text, "design_ref": ref},
            "level_note": note,
            "technique": tech,
        })
    else:
        manifest["not_applicable"].append({"property_id": pid, "reason": "check not built yet in this revision (work in progress; the technique applies, see DESIGN.md)"})
json.dump(manifest, open(os.path.join(ROOT, "MANIFEST.json"), "w"), indent=1)
print("wrote MANIFEST.json with", len(manifest["checks"]), "checks")
