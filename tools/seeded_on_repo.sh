#!/bin/sh
# Final confirmation of the seeded mutants exactly as the brief prescribes: apply the patch to /repo
# itself, run the owning property's quick check (regression files enabled, as in normal use) plus
# the related checks named in the third argument, undo the patch straight afterwards.
# usage: tools/seeded_on_repo.sh <name> "<ID ID ...>"   -> one JSON line on stdout
ROOT="$(cd "$(dirname "$0")/.." && pwd)"
NAME="$1"; IDS="$2"
P="$ROOT/seeded/$NAME/patch.diff"
[ -f "$P" ] || { echo "no such mutant $NAME" >&2; exit 2; }
[ -z "$(git -C /repo status --porcelain --untracked-files=no)" ] || { echo "/repo is not clean" >&2; exit 2; }
git -C /repo apply "$P" || { echo "{\"name\":\"$NAME\",\"error\":\"patch does not apply\"}"; exit 2; }
RES=""
for ID in $IDS; do
    ( cd "$ROOT" && ./bin/check "$ID" quick >"/var/tmp/onrepo-$NAME-$ID.log" 2>&1 )
    RC=$?
    FIRST=$(grep -m1 "^  stage" "/var/tmp/onrepo-$NAME-$ID.log" | python3 -c 'import sys,json; print(json.dumps(sys.stdin.read().strip()[:400]))')
    RES="$RES\"$ID\":{\"rc\":$RC,\"first\":${FIRST:-\"\"}},"
    rm -f "/var/tmp/onrepo-$NAME-$ID.log"
done
git -C /repo checkout -- .
printf '%s\n' "{\"name\":\"$NAME\",\"results\":{${RES%,}}}"
