#!/usr/bin/env python3
"""Developer tool: the hand-written breakages of DESIGN.md §5 as (file, old, new) replacements.
Each mutant is applied in the scratch laboratory (tools/mutlab.sh), the repository's own test
suite decides whether it is "realistic" (compiles and passes the existing tests), and the listed
quick checks are run against it (without the saved regression inputs).  Results are written to
sensitivity/design_mutants.jsonl; patches to sensitivity/mutants/<name>.patch.

usage: tools/design_mutants.py [name-substring ...]
"""
import json, os, subprocess, sys

LAB = os.environ.get("MUTLAB", "/tmp/mutlab")
ROOT = os.path.dirname(os.path.dirname(os.path.abspath(__file__)))

# name, file, old, new, checks, note ("expect": "caught" | "pass" (= must stay green))
M = [
 ("ascii-upper-shift-value", "src/encodation/ascii.rs", "ctx.push(ch - 128 + 1);", "ctx.push(ch - 128);", "C01 C02", "caught"),
 ("base256-randomize-position", "src/encodation/base256.rs", "randomize_255_state(ch, start + i + 1)", "randomize_255_state(ch, start + i)", "C01 C02", "caught"),
 ("pad-randomisation-mod-254", "src/encodation/mod.rs", "let pseudo_random = (((149 * pos) % 253) + 1) as u16;", "let pseudo_random = (((149 * pos) % 254) + 1) as u16;", "C01 C02", "caught"),
 ("base256-length-threshold-250", "src/encodation/base256.rs", "if data_count <= 249 {", "if data_count <= 250 {", "C01 C02", "caught"),
 ("c40-triple-without-plus-one", "src/encodation/c40.rs", "+ c3 as u16 + 1;", "+ c3 as u16;", "C01 C02", "caught"),
 ("edifact-unlatch-30", "src/encodation/edifact.rs", "pub(crate) const UNLATCH: u8 = 0b01_1111;", "pub(crate) const UNLATCH: u8 = 0b01_1110;", "C02 C04", "caught"),
 ("chien-loop-0-254", "src/errorcode/decoding/mod.rs", "for i in 0..=254 {", "for i in 0..254 {", "C03 C09", "caught"),
 ("decode-edifact-lt-2", "src/decodation/mod.rs", "if data.len() <= 2 {\n            // rest is encoded as ASCII", "if data.len() < 2 {\n            // rest is encoded as ASCII", "C04 C01", "caught"),
 ("decode-base256-249", "src/decodation/mod.rs", "250 * (ch1 - 249) + ch2", "249 * (ch1 - 249) + ch2", "C04 C01", "caught"),
 ("decode-text-shift3-swapped", "src/decodation/mod.rs", "b\"`ABCDEFGHIJKLMNOPQRSTUVWXYZ{|}~\\x7f\"", "b\"`ABCDEFGHIJKLMNOPQRSTUVWXZY{|}~\\x7f\"", "C04 C01", "caught"),
 ("decode-c40-trailing-codeword", "src/decodation/mod.rs", "    while data.len() > 1 {\n        let first = data.eat().unwrap();\n        if first == UNLATCH {\n            break;\n        }\n        let (c1, c2, c3) = decode_c40_tuple(first, data.eat().unwrap());", "    while data.len() > 0 {\n        let first = data.eat().unwrap();\n        if first == UNLATCH {\n            break;\n        }\n        let (c1, c2, c3) = decode_c40_tuple(first, data.eat().unwrap_or(0));", "C04 C05", "caught"),
 ("try-from-bits-no-datasize", "src/placement.rs", "        if bits.len() % width != 0 {\n            return Err(BitmapConversionError::DataSize);\n        }\n", "", "C05 C08", "caught"),
 ("read-eci-no-ch2-check", "src/decodation/mod.rs", "            let mut ch2 = data.eat()?;\n            if !matches!(ch2, 1..=254) {\n                return Err(DataDecodingError::UnexpectedCharacter(\"2nd after ECI\", ch2));\n            }\n            ch2 -= 1;", "            let mut ch2 = data.eat()?;\n            ch2 = ch2.wrapping_sub(1);", "C05 C15", "caught"),
 ("generator-62-coefficient", "src/errorcode/mod.rs", "1, 204, 11, 47, 86, 124, 224, 166, 94, 7, 232,", "1, 204, 11, 47, 86, 124, 224, 166, 94, 7, 233,", "C06 C12 C03", "caught"),
 ("rs-encode-stride-start", "src/errorcode/mod.rs", "let strided_data_input = (block..data.len()).step_by(stride).map(|i| data[i]);", "let strided_data_input = (block..data.len()).step_by(stride).map(|i| data[(i + stride - 1) / stride * stride % data.len()]);", "C06 C01", "caught"),
 ("corner3-rows-swapped", "src/placement.rs", "    fn corner3(&self) -> [usize; 8] {\n        let h = self.height as isize;\n        let w = self.width as isize;\n        [\n            self.idx(h - 3, 0),\n            self.idx(h - 2, 0),", "    fn corner3(&self) -> [usize; 8] {\n        let h = self.height as isize;\n        let w = self.width as isize;\n        [\n            self.idx(h - 2, 0),\n            self.idx(h - 3, 0),", "C07 C01", "caught"),
 ("corner4-columns-swapped", "src/placement.rs", "            self.idx(0, w - 3),\n            self.idx(0, w - 2),\n            self.idx(0, w - 1),\n            self.idx(1, w - 3),", "            self.idx(0, w - 2),\n            self.idx(0, w - 3),\n            self.idx(0, w - 1),\n            self.idx(1, w - 3),", "C07 C01", "caught"),
 ("utah-two-modules-swapped", "src/placement.rs", "            self.idx(i - 1, j - 2),\n            self.idx(i - 1, j - 1),\n            self.idx(i - 1, j),", "            self.idx(i - 1, j - 1),\n            self.idx(i - 1, j - 2),\n            self.idx(i - 1, j),", "C07 C01", "caught"),
 ("parser-skips-right-clock", "src/placement.rs", "let alignment_ok = row[0] == M::HIGH && row[blk_w + 1] == alignment_bit;", "let alignment_ok = row[0] == M::HIGH;", "C08 C05", "caught"),
 ("parser-padding-relaxed", "src/placement.rs", "let padding_ok = entries[entries.len() - 2..] == [M::LOW, M::HIGH]\n                && entries[entries.len() - w - 2..entries.len() - w] == [M::HIGH, M::LOW];", "let padding_ok = entries[entries.len() - 2..] == [M::LOW, M::HIGH];", "C08", "caught"),
 ("parser-top-row-not-checked", "src/placement.rs", "let alignment_ok = last_row.iter().all(|b| *b == M::HIGH)\n                && first_row\n                    .iter()\n                    .zip([M::HIGH, M::LOW].into_iter().cycle())\n                    .all(|(a, b)| *a == b);", "let alignment_ok = last_row.iter().all(|b| *b == M::HIGH);", "C08", "caught"),
 ("renderer-vertical-alignment-parity", "src/placement.rs", "            for i in (1..h).step_by(2) {\n                bits[idx(i, cols_before)] = M::HIGH;\n            }", "            for i in (0..h).step_by(2) {\n                bits[idx(i, cols_before)] = M::HIGH;\n            }", "C08 C12 C07", "caught"),
 ("no-root-count-check", "src/errorcode/decoding/syndrome_based.rs", "if inv_error_locations.len() != lambda_coeff.len() - 1 || inv_error_locations[0] == GF(0) {", "if inv_error_locations.is_empty() || inv_error_locations[0] == GF(0) {", "C09 C05 C03", "caught"),
 ("no-errors-outside-range", "src/errorcode/decoding/syndrome_based.rs", "        if i >= n {\n            return Err(ErrorDecodingError::ErrorsOutsideRange);\n        }\n", "        if i >= n {\n            continue;\n        }\n", "C09 C05", "caught"),
 ("malfunction-test-dropped", "src/errorcode/decoding/syndrome_based.rs", "        if t_j != GF(0) {\n            return Err(ErrorDecodingError::Malfunction);\n        }", "        if t_j != GF(0) && false {\n            return Err(ErrorDecodingError::Malfunction);\n        }", "C09", "caught"),
 ("base256-planner-cost-plus-one", "src/encodation/planner/base256.rs", "            self.written += 1;\n            self.cost += 1;\n            self.ctx.write(1);", "            self.written += 1;\n            self.cost += if self.written == 7 { 2 } else { 1 };\n            self.ctx.write(1);", "C10 C18", "caught"),
 ("first-symbol-big-enough-gt", "src/symbol_size.rs", ".find(|s| s.num_data_codewords() >= size_needed)", ".find(|s| s.num_data_codewords() > size_needed)", "C10 C12 C18", "caught"),
 ("c40-planner-switch-cost", "src/encodation/planner/x12.rs", "            Some(self.cost + 1)\n        } else {\n            None", "            Some(self.cost + 2)\n        } else {\n            None", "C10 C18", "caught"),
 ("base256-planner-limit-1557", "src/encodation/planner/base256.rs", "if self.written == 1556 {", "if self.written == 1557 {", "C11 C10", "caught"),
 ("no-max-capacity-early-exit", "src/encodation/mod.rs", "        if self.data.len() > self.symbol_list.max_capacity() {\n            return Err(DataEncodingError::TooMuchOrIllegalData);\n        }\n", "", "C11 C19", "pass"),
 ("ec-count-8x64", "src/symbol_size.rs", "            Self::Rect8x64 => BlockSetup {\n                num_ecc_blocks: 1,\n                num_ecc_per_block: 18,", "            Self::Rect8x64 => BlockSetup {\n                num_ecc_blocks: 1,\n                num_ecc_per_block: 20,", "C12 C06", "caught"),
 ("ec-data-swap-8x64", "src/symbol_size.rs", None, None, "C12 C06 C02", "caught"),  # two-site mutant, see below
 ("is-dmre-missing-26x64", "src/symbol_size.rs", "                | Self::Rect26x48\n                | Self::Rect26x64\n        )", "                | Self::Rect26x48\n        )", "C12 C02", "caught"),
 ("height-filter-uses-width", "src/symbol_size.rs", ".retain(|s| bounds.contains(&s.block_setup().height));", ".retain(|s| bounds.contains(&s.block_setup().width));", "C12", "caught"),
 ("width-filter-off-by-one", "src/symbol_size.rs", ".retain(|s| bounds.contains(&s.block_setup().width));", ".retain(|s| bounds.contains(&(s.block_setup().width - 1)) || bounds.contains(&s.block_setup().width) && s.block_setup().width != 144);", "C12", "caught"),
 ("base256-switch-ignores-enabled", "src/encodation/planner/generic.rs", "        if !matches!(self.plan, PlanImpl::Base256(_))\n            && enabled_modes.contains(EncodationType::Base256)\n        {", "        if !matches!(self.plan, PlanImpl::Base256(_)) {", "C13", "caught"),
 ("start-plan-unconditional", "src/encodation/planner/shortest_path.rs", "    if enabled_modes.contains(mode) {\n        plans.push(start_plan);", "    if enabled_modes.contains(mode) || data.len() > 20 {\n        plans.push(start_plan);", "C13", "caught"),
 ("latin1-soft-hyphen", "src/data.rs", "'\\u{00AD}' => 173,", "'\\u{00AD}' => 45,", "C14", "caught"),
 ("latin1-back-multiplication-sign", "src/data.rs", "215 => '×',", "215 => 'x',", "C14 C15", "caught"),
 ("eci-utf8-27", "src/decodation/eci.rs", "pub(crate) const ECI_UTF8: u32 = 26;", "pub(crate) const ECI_UTF8: u32 = 27;", "C14 C15", "caught"),
 ("write-eci-three-byte-divisor", "src/encodation/mod.rs", "self.codewords.push((c / 64516 + 192) as u8);", "self.codewords.push((c / 64517 + 192) as u8);", "C15 C02", "caught"),
 ("iso-8859-9-entry", "src/decodation/eci.rs", "'\\u{00D8}', '\\u{00D9}', '\\u{00DA}', '\\u{00DB}', '\\u{00DC}', '\\u{0130}', '\\u{015E}', '\\u{00DF}',", "'\\u{00D8}', '\\u{00D9}', '\\u{00DA}', '\\u{00DB}', '\\u{00DC}', '\\u{00DD}', '\\u{015E}', '\\u{00DF}',", "C15", "caught"),
 ("iso-8859-11-upper-bound", "src/decodation/eci.rs", "0xDF..=0xFB =>", "0xDF..=0xFA =>", "C15", "caught"),
 ("eci-27-accepts-high-bytes", "src/decodation/eci.rs", "            if bytes.is_ascii() {", "            if bytes.is_ascii() || core::str::from_utf8(bytes).is_ok() {", "C15", "caught"),
 ("macro-needs-body", "src/encodation/mod.rs", "        if !self.codewords.is_empty() || !self.data.ends_with(MACRO_TRAIL) {\n            return;\n        }", "        if !self.codewords.is_empty() || !self.data.ends_with(MACRO_TRAIL) || self.data.len() == 9 {\n            return;\n        }", "C16", "caught"),
 ("macro-06-header-case", "src/encodation/mod.rs", "            if self.data.starts_with(head) {", "            if self.data.starts_with(head) || (cw == MACRO06 && self.data.starts_with(b\"[)>\\x1E06\") && self.data.len() > 20) {", "C16 C01", "caught"),
 ("decoder-fnc1-not-stripped-after-macro", "src/decodation/mod.rs", "    let fnc1 = data.peek(0) == Some(ascii::FNC1);", "    let fnc1 = data.peek(0) == Some(ascii::FNC1) && data.len() != 5;", "C16 C01", "caught"),
 ("path-move-swapped", "src/placement/path.rs", "steps.push(PathSegment::Move(j - pos.1, i - pos.0));", "steps.push(PathSegment::Move(i - pos.0, j - pos.1));", "C17", "caught"),
 ("path-keep-last-run", "src/placement/path.rs", "                // drop content of step_wip, just add close\n                step_wip = None;", "                // drop content of step_wip, just add close\n                if let Some(s) = step_wip.take() { steps.push(s); }", "C17", "pass"),
 ("pixels-column-major", "src/placement.rs", ".map(move |(i, _b)| (i % w, i / w))", ".map(move |(i, _b)| (i / w, i % w))", "C17", "caught"),
 ("unicode-border-missing-row", "src/placement.rs", "for i in (0..height + 2 * BORDER).step_by(2) {", "for i in (0..height + BORDER).step_by(2) {", "C17", "caught"),
 ("x12-planner-unlatch-free", "src/encodation/planner/x12.rs", "                        if space_left == 1 {\n                            // unlatch\n                            self.cost += 1;\n                        }", "", "C18 C10", "caught"),
 ("dedup-off", "src/encodation/planner/shortest_path.rs", "        if seen[pl_idx] {", "        if seen[pl_idx] && false {", "C19", "caught"),
 ("dominance-off", "src/encodation/planner/shortest_path.rs", "    while start + 1 < list.len() {", "    while start + 1 < list.len() && false {", "C19 C10", "pass"),
 ("dedup-and-dominance-off", "src/encodation/planner/shortest_path.rs", None, None, "C19", "caught"),
 ("unbeatable-ignored", "src/encodation/planner/shortest_path.rs", "if !result.unbeatable && !result.end {", "if !result.end {", "C19 C10", "pass"),
]

TWO_SITE = {
 "ec-data-swap-8x64": [("src/symbol_size.rs", "            Self::Rect8x64 => BlockSetup {\n                num_ecc_blocks: 1,\n                num_ecc_per_block: 18,", "            Self::Rect8x64 => BlockSetup {\n                num_ecc_blocks: 1,\n                num_ecc_per_block: 20,"),
                       ("src/symbol_size.rs", "            Self::Rect8x64 => 24,", "            Self::Rect8x64 => 22,")],
 "dedup-and-dominance-off": [("src/encodation/planner/shortest_path.rs", "        if seen[pl_idx] {", "        if seen[pl_idx] && false {"),
                             ("src/encodation/planner/shortest_path.rs", "    while start + 1 < list.len() {", "    while start + 1 < list.len() && false {")],
}

def sh(cmd, **kw):
    return subprocess.run(cmd, shell=True, text=True, capture_output=True, **kw)

def main():
    filt = sys.argv[1:]
    os.makedirs(os.path.join(ROOT, "sensitivity", "mutants"), exist_ok=True)
    out = open(os.path.join(ROOT, "sensitivity", "design_mutants.jsonl"), "a")
    repo = os.path.join(LAB, "repo")
    for name, f, old, new, checks, expect in M:
        if filt and not any(x in name for x in filt):
            continue
        sh("git checkout -q -- .", cwd=repo)
        sites = TWO_SITE.get(name, [(f, old, new)])
        ok = True
        for (ff, o, n) in sites:
            p = os.path.join(repo, ff)
            s = open(p).read()
            if s.count(o) < 1:
                print("SKIP", name, ": pattern not found in", ff)
                ok = False
                break
            s = s.replace(o, n, 1)
            open(p, "w").write(s)
        if not ok:
            continue
        patch = os.path.join(ROOT, "sensitivity", "mutants", name + ".patch")
        open(patch, "w").write(sh("git diff", cwd=repo).stdout)
        sh("git checkout -q -- .", cwd=repo)
        env = dict(os.environ, VERIF_NO_REGRESS="1")
        r = subprocess.run([os.path.join(ROOT, "tools", "mutant.sh"), name, patch, checks], text=True, capture_output=True, env=env)
        line = r.stdout.strip().splitlines()[-1] if r.stdout.strip() else json.dumps({"name": name, "error": r.stderr[-300:]})
        try:
            d = json.loads(line)
        except Exception:
            d = {"name": name, "error": line[:300]}
        d["expect"] = expect
        out.write(json.dumps(d) + "\n")
        out.flush()
        res = {k: v["rc"] for k, v in d.get("results", {}).items()}
        print(name, "suite=" + str(d.get("suite")), res, "expect=" + expect, flush=True)

main()
