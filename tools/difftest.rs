// differential fingerprint: encodes a fixed pseudo-random corpus and prints one hash of all results
use datamatrix::data::encode_data;
use datamatrix::{EncodationType, SymbolList, SymbolSize};
use flagset::FlagSet;

fn sm(s: &mut u64) -> u64 {
    *s = s.wrapping_add(0x9E3779B97F4A7C15);
    let mut z = *s;
    z = (z ^ (z >> 30)).wrapping_mul(0xBF58476D1CE4E5B9);
    z = (z ^ (z >> 27)).wrapping_mul(0x94D049BB133111EB);
    z ^ (z >> 31)
}
fn ch(class: u64, r: u64) -> u8 {
    let r = (r >> 8) as u8;
    match class % 9 {
        0 => b'0' + r % 10,
        1 => b'A' + r % 26,
        2 => b'a' + r % 26,
        3 => b" \r*>"[(r % 4) as usize],
        4 => b' ',
        5 => 32 + r % 63,
        6 => b"!\"#$%&'()*+,-./:;<=>?@[\\]^_"[(r % 27) as usize],
        7 => r % 32,
        _ => 128 + r % 128,
    }
}
#[test]
fn fingerprint() {
    let n: usize = std::env::var("DIFF_N").ok().and_then(|x| x.parse().ok()).unwrap_or(200_000);
    let all: Vec<SymbolSize> = SymbolList::all().iter().collect();
    let modes = [EncodationType::Ascii, EncodationType::C40, EncodationType::Text, EncodationType::X12, EncodationType::Edifact, EncodationType::Base256];
    let mut s = 0xD1FF_2026u64;
    let mut h: u64 = 0xcbf29ce484222325;
    let mut ok = 0usize;
    let mut out = std::env::var("DIFF_OUT").ok().map(|p| std::io::BufWriter::new(std::fs::File::create(p).unwrap()));
    for _ in 0..n {
        let mut v = Vec::new();
        let runs = 1 + sm(&mut s) % 6;
        for _ in 0..runs {
            let class = sm(&mut s);
            let len = 1 + sm(&mut s) % if sm(&mut s) % 8 == 0 { 40 } else { 9 };
            for _ in 0..len {
                v.push(ch(class, sm(&mut s)));
            }
        }
        if sm(&mut s) % 50 == 0 {
            let extra = 240 + (sm(&mut s) % 30) as usize;
            let class = [8u64, 1, 0][(sm(&mut s) % 3) as usize];
            for _ in 0..extra {
                v.push(ch(class, sm(&mut s)));
            }
        }
        let mbits = sm(&mut s);
        let mut fl = FlagSet::<EncodationType>::default();
        let pick = if mbits % 3 == 0 { 63 } else { (mbits >> 8) % 63 + 1 };
        for (i, m) in modes.iter().enumerate() {
            if pick >> i & 1 == 1 {
                fl |= *m;
            }
        }
        let list = match sm(&mut s) % 4 {
            0 => SymbolList::default(),
            1 => SymbolList::all(),
            2 => SymbolList::with_whitelist([all[(sm(&mut s) % 48) as usize]]),
            _ => SymbolList::with_whitelist((0..3).map(|_| all[(sm(&mut s) % 48) as usize])),
        };
        let r = std::panic::catch_unwind(|| encode_data(&v, &list, None, fl, false));
        let mut feed = |b: u8| {
            h ^= b as u64;
            h = h.wrapping_mul(0x100000001b3);
        };
        if let Some(f) = out.as_mut() {
            // one line per input (DIFF_OUT=<file>): symbol, stream length, printable form of the input
            use std::io::Write;
            match &r {
                Ok(Ok((cw, size))) => writeln!(f, "{:?} {} modes={:?} {:?}", size, cw.len(), fl, String::from_utf8_lossy(&v.iter().map(|b| if *b < 32 || *b > 126 { b'?' } else { *b }).collect::<Vec<u8>>())).unwrap(),
                Ok(Err(e)) => writeln!(f, "ERR {:?}", e).unwrap(),
                Err(_) => writeln!(f, "PANIC").unwrap(),
            }
        }
        match r {
            Ok(Ok((cw, size))) => {
                ok += 1;
                feed(1);
                for b in &cw {
                    feed(*b);
                }
                for b in format!("{:?}", size).bytes() {
                    feed(b);
                }
            }
            Ok(Err(_)) => feed(2),
            Err(_) => feed(3),
        }
    }
    println!("FINGERPRINT {:016x} ok={} n={}", h, ok, n);
}
