#!/bin/sh
# Developer tool: run one mutant in the scratch laboratory.
# usage: tools/mutant.sh <name> <patch-file | revert:<sha>> "<ID ID ...>" [tier]
# Prints one JSON line: {name, suite_passes, results:{ID: rc}}
LAB="${MUTLAB:-/tmp/mutlab}"
NAME="$1"; PATCH="$2"; IDS="$3"; TIER="${4:-quick}"
[ -d "$LAB/repo" ] || { echo "run tools/mutlab.sh first" >&2; exit 2; }
cd "$LAB/repo" || exit 2
git checkout -q -- . 
case "$PATCH" in
    revert:*) git show "${PATCH#revert:}" | git apply -R || { echo "{\"name\":\"$NAME\",\"error\":\"revert does not apply\"}"; exit 2; } ;;
    *) git apply "$PATCH" || { echo "{\"name\":\"$NAME\",\"error\":\"patch does not apply\"}"; exit 2; } ;;
esac
SUITE=pass
CARGO_NET_OFFLINE=true CARGO_TARGET_DIR="$LAB/repo-target" timeout 600 cargo test --workspace --no-fail-fast --offline >"$LAB/suite.log" 2>&1 || SUITE=fail   # (a suite that hangs counts as failing)
RES=""
for ID in $IDS; do
    ( cd "$LAB/verif" && ./bin/check "$ID" "$TIER" >"$LAB/check-$ID.log" 2>&1 )
    RC=$?
    FIRST=$(grep -m1 "^  stage" "$LAB/check-$ID.log" | python3 -c 'import sys,json; print(json.dumps(sys.stdin.read().strip()[:300]))')
    RES="$RES\"$ID\":{\"rc\":$RC,\"first\":${FIRST:-\"\"}},"
done
git checkout -q -- .
printf "%s\n" "{\"name\":\"$NAME\",\"suite\":\"$SUITE\",\"tier\":\"$TIER\",\"results\":{${RES%,}}}"
