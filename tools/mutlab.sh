#!/bin/sh
# Developer tool: (re)creates a scratch laboratory outside /repo and /verif for sensitivity tests:
#   $LAB/repo   detached git worktree of /repo HEAD
#   $LAB/verif  copy of /verif (without build output) whose engine depends on $LAB/repo
# Remove with: tools/mutlab.sh --remove
LAB="${MUTLAB:-/tmp/mutlab}"
if [ "$1" = "--remove" ]; then
    git -C /repo worktree remove --force "$LAB/repo" 2>/dev/null
    rm -rf "$LAB"
    git -C /repo worktree prune
    exit 0
fi
mkdir -p "$LAB"
if [ ! -d "$LAB/repo" ]; then
    git -C /repo worktree add --detach "$LAB/repo" HEAD >/dev/null || exit 1
    cp /repo/Cargo.lock "$LAB/repo/Cargo.lock" 2>/dev/null
else
    git -C "$LAB/repo" checkout -q --detach "$(git -C /repo rev-parse HEAD)" && git -C "$LAB/repo" checkout -- .
fi
mkdir -p "$LAB/verif"
rsync -a --delete --exclude engine/target --exclude .git --exclude replays --exclude evidence /verif/ "$LAB/verif/"
sed -i "s#path = \"/repo\"#path = \"$LAB/repo\"#" "$LAB/verif/engine/dmcheck/Cargo.toml"
mkdir -p "$LAB/verif/evidence"
echo "lab ready at $LAB"
