#!/bin/sh
# Developer tool: final confirmation of every seeded mutant against /repo itself (patch applied, checks run,
# patch undone), one after the other; plan = tools/seeded_on_repo_plan.txt (name|IDs).  Appends JSON lines.
# usage: tools/seeded_on_repo_all.sh <outfile>
ROOT="$(cd "$(dirname "$0")/.." && pwd)"
OUT="$1"
while IFS='|' read -r NAME IDS; do
    [ -n "$NAME" ] || continue
    grep -q "\"name\":\"$NAME\"" "$OUT" 2>/dev/null && continue
    "$ROOT/tools/seeded_on_repo.sh" "$NAME" "$IDS" >> "$OUT" 2>>"$OUT.err"
done < "$ROOT/tools/seeded_on_repo_plan.txt"
git -C /repo status --porcelain --untracked-files=no | head -3
echo "done"
