#!/bin/sh
# Developer tool: grow the committed fuzz corpus with coverage-guided campaigns.
# usage: tools/grow_corpus.sh <seconds> <outdir>     (run from a /verif checkout or a vp-run snapshot)
# Each target runs with the cheapest oracle of its family active (the corpus is about reaching code
# of the crate; the oracles of all properties are applied to it later by the corpus-replay stage).
# Afterwards every target's corpus is minimised with libFuzzer's -merge=1 into <outdir>/<target>.
SECS="${1:-600}"; OUT="${2:-/var/tmp/corpus-grown}"
ROOT="$(cd "$(dirname "$0")/.." && pwd)"
export CARGO_NET_OFFLINE=true VERIF_ROOT="$ROOT"
cd "$ROOT/engine" && cargo +nightly fuzz build -O -s none >/dev/null 2>&1 || { echo "fuzz build failed"; exit 2; }
BIN="$ROOT/engine/fuzz/target/x86_64-unknown-linux-gnu/release"
W=$(mktemp -d /var/tmp/grow.XXXXXX)
run() { # target prop workers
    mkdir -p "$W/$1/corpus" "$W/$1/out" "$W/$1/art"
    cp "$ROOT/corpus/$1/"* "$W/$1/corpus/" 2>/dev/null
    ( cd "$W/$1" && DMFUZZ_PROP=$2 DMFUZZ_OUT="$W/$1/out" "$BIN/fz_$1" corpus -max_total_time=$SECS -max_len=4096 -len_control=0 -timeout=60 -rss_limit_mb=4096 -jobs=$3 -workers=$3 -reload=1 -artifact_prefix="$W/$1/art/" >/dev/null 2>&1 ) &
}
run enc C11 6
run rs C09 3
run bitmap C08 3
run stream C05 2
run script C04 2
wait
mkdir -p "$OUT"
for tp in enc:C11 rs:C09 bitmap:C08 stream:C05 script:C04; do
    t=${tp%%:*}; p=${tp##*:}
    mkdir -p "$OUT/$t"
    # minimise under the same oracle the campaign ran with (its coverage is what the corpus was grown for)
    ( cd "$W/$t" && DMFUZZ_PROP=$p DMFUZZ_OUT="$W/$t/out" "$BIN/fz_$t" -merge=1 -max_len=4096 "$OUT/$t" corpus >/dev/null 2>&1 )
    echo "$t: $(ls "$W/$t/corpus" | wc -l) files grown, $(ls "$OUT/$t" | wc -l) after merge, failures: $(ls "$W/$t/out" | grep -c '^fail-')"
    cp "$W/$t/out"/fail-* "$OUT/" 2>/dev/null
done
rm -rf "$W"
