#!/bin/sh
# Developer tool: evaluate one seeded mutant (from a sub-agent) in the scratch laboratory.
# usage: tools/seeded_eval.sh <dir with patch.diff + demo.rs> "<ID ID ...>" [tier]
# Steps: (1) repo suite with the patch must pass; (2) demo must fail with the patch and pass
# without; (3) run the listed checks against the patched tree.  Prints one JSON line.
LAB="${MUTLAB:-/tmp/mutlab}"
DIR="$1"; IDS="$2"; TIER="${3:-quick}"
NAME=$(basename "$(dirname "$DIR")")-$(basename "$DIR")
[ -d "$LAB/repo" ] || { echo "run tools/mutlab.sh first" >&2; exit 2; }
cd "$LAB/repo" || exit 2
git checkout -q -- . ; rm -rf tests/seeded_demo.rs
export CARGO_NET_OFFLINE=true CARGO_TARGET_DIR="$LAB/repo-target"
FEAT=""
grep -q verif "$DIR/demo.rs" && FEAT="--features verif_hooks"
mkdir -p tests
cp "$DIR/demo.rs" tests/seeded_demo.rs
DEMO_CLEAN=fail
cargo test --offline $FEAT --test seeded_demo >"$LAB/demo-clean.log" 2>&1 && DEMO_CLEAN=pass
git apply "$DIR/patch.diff" || { echo "{\"name\":\"$NAME\",\"error\":\"patch does not apply\"}"; rm -f tests/seeded_demo.rs; exit 2; }
DEMO_MUT=pass
cargo test --offline $FEAT --test seeded_demo >"$LAB/demo-mut.log" 2>&1 || DEMO_MUT=fail
rm -f tests/seeded_demo.rs; rmdir tests 2>/dev/null
SUITE=pass
timeout 600 cargo test --workspace --no-fail-fast --offline >"$LAB/suite.log" 2>&1 || SUITE=fail   # (a suite that hangs counts as failing)
RES=""
for ID in $IDS; do
    ( unset CARGO_TARGET_DIR; cd "$LAB/verif" && VERIF_NO_REGRESS=${VERIF_NO_REGRESS-1} ./bin/check "$ID" "$TIER" >"$LAB/check-$NAME-$ID.log" 2>&1 )
    RC=$?
    FIRST=$(grep -m1 "^  stage" "$LAB/check-$NAME-$ID.log" | python3 -c 'import sys,json; print(json.dumps(sys.stdin.read().strip()[:300]))')
    RES="$RES\"$ID\":{\"rc\":$RC,\"first\":${FIRST:-\"\"}},"
done
git checkout -q -- .
printf "%s\n" "{\"name\":\"$NAME\",\"suite\":\"$SUITE\",\"demo_clean\":\"$DEMO_CLEAN\",\"demo_mutant\":\"$DEMO_MUT\",\"tier\":\"$TIER\",\"results\":{${RES%,}}}"
