#!/usr/bin/env python3
"""Developer tool: operator sweep.  Small syntactic changes (relational / arithmetic / logical operator
swapped, integer literal + 1) at sampled places of /repo/src outside test code are applied one at a time
in the scratch laboratory (tools/mutlab.sh); the repository's own suite decides whether the variant is
"realistic" (compiles and passes), then the quick checks of the properties anchored in that file are run
(without the saved regression inputs) until one reports a violation.

usage: tools/sweep.py <n_sites> <shard> <n_shards> <outfile>      (MUTLAB selects the laboratory)
Survivors (suite passes, no check reports) have to be judged by hand: equivalent variant or blind spot.
"""
import json, os, random, re, subprocess, sys

LAB = os.environ.get("MUTLAB", "/tmp/mutlab")
REPO = os.path.join(LAB, "repo")
VERIF = os.path.join(LAB, "verif")

CHECKS = [
    ("src/data.rs", "C01 C14 C16 C11"),
    ("src/decodation/eci.rs", "C15 C14 C05"),
    ("src/decodation/mod.rs", "C04 C05 C01 C15"),
    ("src/encodation/planner/", "C10 C18 C11 C02 C19 C13"),
    ("src/encodation/mod.rs", "C02 C01 C11 C16 C10 C13"),
    ("src/encodation/encodation_type.rs", "C13 C10"),
    ("src/encodation/", "C02 C01 C11 C18 C10"),
    ("src/errorcode/decoding/", "C03 C09 C05"),
    ("src/errorcode/", "C06 C03 C09"),
    ("src/lib.rs", "C01 C14 C16 C02"),
    ("src/placement/path.rs", "C17"),
    ("src/placement.rs", "C07 C08 C17 C05"),
    ("src/symbol_size.rs", "C12 C10 C11 C02"),
]

REL = {"<=": "<", "<": "<=", ">=": ">", ">": ">=", "==": "!=", "!=": "=="}


def checks_for(path):
    for prefix, ids in CHECKS:
        if path.startswith(prefix):
            return ids.split()
    return []


def test_ranges(lines):
    """line indices that belong to test code or hook code (attribute + following item)"""
    skip = set()
    i = 0
    n = len(lines)
    while i < n:
        s = lines[i].strip()
        if s.startswith("#[cfg(test)]") or s.startswith("#[test]") or s.startswith('#[cfg(feature = "verif_hooks")]') or s.startswith("#[cfg(all(test") or s.startswith('#[cfg(feature = "extended_eci")]'):
            j = i
            depth = 0
            opened = False
            while j < n:
                skip.add(j)
                for ch in lines[j]:
                    if ch == "{":
                        depth += 1
                        opened = True
                    elif ch == "}":
                        depth -= 1
                if opened and depth <= 0:
                    break
                if not opened and lines[j].strip().endswith(";") and j > i:
                    break
                j += 1
            i = j + 1
        else:
            i += 1
    return skip


def sites():
    out = []
    for root, _, files in os.walk(os.path.join(REPO, "src")):
        for f in sorted(files):
            if not f.endswith(".rs") or f in ("tests.rs", "verif.rs"):
                continue
            p = os.path.join(root, f)
            rel = os.path.relpath(p, REPO)
            if not checks_for(rel):
                continue
            lines = open(p).read().split("\n")
            skip = test_ranges(lines)
            for i, l in enumerate(lines):
                s = l.strip()
                if i in skip or s.startswith("//") or s.startswith("#[") or "assert" in s or s.startswith("use ") or "=>" in s and "if" not in s and "matches!" not in s and not re.search(r"\d", s):
                    continue
                code = l.split("//")[0]
                for m in re.finditer(r" (<=|>=|==|!=|<|>) ", code):
                    op = m.group(1)
                    out.append((rel, i, m.start(1), m.end(1), REL[op], "rel %s->%s" % (op, REL[op])))
                for m in re.finditer(r" (&&|\|\|) ", code):
                    op = m.group(1)
                    new = "||" if op == "&&" else "&&"
                    out.append((rel, i, m.start(1), m.end(1), new, "logic %s->%s" % (op, new)))
                for m in re.finditer(r" (\+|-) (?!=)", code):
                    op = m.group(1)
                    new = "-" if op == "+" else "+"
                    out.append((rel, i, m.start(1), m.end(1), new, "arith %s->%s" % (op, new)))
                lits = list(re.finditer(r"(?<![\w.])(\d+)(?![\w.]|\s*\.\.)", code))
                if lits and not s.startswith("fn "):
                    # one literal per line (tables: the one chosen by the line number)
                    m = lits[i % len(lits)]
                    v = int(m.group(1))
                    if v <= 100000:
                        out.append((rel, i, m.start(1), m.end(1), str(v + 1), "lit %d->%d" % (v, v + 1)))
    return out


def run(cmd, cwd, env=None, timeout=None):
    e = dict(os.environ)
    if env:
        e.update(env)
    try:
        r = subprocess.run(cmd, cwd=cwd, env=e, shell=True, stdout=subprocess.PIPE, stderr=subprocess.STDOUT, timeout=timeout)
        return r.returncode, r.stdout.decode("utf-8", "replace")
    except subprocess.TimeoutExpired:
        return 124, "timeout"


def rerun(infile, outfile):
    """second pass over the survivors of an earlier run with the current check lists (no early stop)"""
    run("git checkout -q -- .", REPO)
    for l in open(infile):
        d = json.loads(l)
        if d.get("suite") != "pass" or d.get("caught"):
            continue
        p = os.path.join(REPO, d["file"])
        src = open(p).read()
        lines = src.split("\n")
        i = d["line"] - 1
        if lines[i].strip() != d["old"]:
            print("source moved:", d["id"])
            continue
        lines[i] = lines[i].replace(d["old"], d["new"])
        open(p, "w").write("\n".join(lines))
        res = {}
        for cid in checks_for(d["file"]):
            rc2, out2 = run("./bin/check %s quick" % cid, VERIF, env={"VERIF_NO_REGRESS": "1"}, timeout=1500)
            first = ""
            for ol in out2.split("\n"):
                if ol.startswith("  stage"):
                    first = ol.strip()[:300]
                    break
            res[cid] = {"rc": rc2, "first": first}
            if rc2 == 1:
                break
        open(p, "w").write(src)
        d["results"] = res
        d["caught"] = any(v["rc"] == 1 for v in res.values())
        d["second_pass"] = True
        with open(outfile, "a") as o:
            o.write(json.dumps(d) + "\n")
        print(d["id"], d["caught"], {k: v["rc"] for k, v in res.items()}, flush=True)
    run("git checkout -q -- .", REPO)


def main():
    if sys.argv[1] == "rerun":
        return rerun(sys.argv[2], sys.argv[3])
    n_sites, shard, n_shards, outfile = int(sys.argv[1]), int(sys.argv[2]), int(sys.argv[3]), sys.argv[4]
    run("git checkout -q -- .", REPO)
    all_sites = sites()
    rnd = random.Random(int(os.environ.get("SWEEP_SEED", "20261003")))
    # stratify: at most sqrt-proportional share per file, tables (symbol_size.rs) capped
    byfile = {}
    for s in all_sites:
        byfile.setdefault(s[0], []).append(s)
    chosen = []
    total_w = sum(len(v) ** 0.5 for v in byfile.values())
    for f, v in sorted(byfile.items()):
        k = max(2, int(round(n_sites * (len(v) ** 0.5) / total_w)))
        rnd.shuffle(v)
        chosen.extend(v[:k])
    chosen.sort()
    done = set()
    prev = os.path.join(os.path.dirname(os.path.dirname(os.path.abspath(__file__))), "sensitivity", "sweep.jsonl")
    for pth in (prev,):
        if os.path.exists(pth):
            for l in open(pth):
                try:
                    done.add(json.loads(l)["id"])
                except Exception:
                    pass
    if os.path.exists(outfile):
        for l in open(outfile):
            try:
                done.add(json.loads(l)["id"])
            except Exception:
                pass
    print("sites: %d total, %d chosen" % (len(all_sites), len(chosen)), flush=True)
    for idx, (rel, i, a, b, new, what) in enumerate(chosen):
        if idx % n_shards != shard:
            continue
        mid = "%s:%d:%d %s" % (rel, i + 1, a, what)
        if mid in done:
            continue
        p = os.path.join(REPO, rel)
        src = open(p).read()
        lines = src.split("\n")
        old_line = lines[i]
        lines[i] = old_line[:a] + new + old_line[b:]
        open(p, "w").write("\n".join(lines))
        rec = {"id": mid, "file": rel, "line": i + 1, "old": old_line.strip(), "new": lines[i].strip(), "op": what}
        rc, out = run("CARGO_NET_OFFLINE=true CARGO_TARGET_DIR=%s/repo-target timeout 600 cargo test --workspace --no-fail-fast --offline" % LAB, REPO)
        if rc != 0:
            rec["suite"] = "fail" if "test result" in out or "error" in out else "fail"
            rec["compiles"] = "error[" not in out and "could not compile" not in out
        else:
            rec["suite"] = "pass"
            res = {}
            for cid in checks_for(rel):
                rc2, out2 = run("./bin/check %s quick" % cid, VERIF, env={"VERIF_NO_REGRESS": "1"}, timeout=1500)
                first = ""
                for l in out2.split("\n"):
                    if l.startswith("  stage"):
                        first = l.strip()[:300]
                        break
                res[cid] = {"rc": rc2, "first": first}
                if rc2 == 1:
                    break
            rec["results"] = res
            rec["caught"] = any(v["rc"] == 1 for v in res.values())
        open(p, "w").write(src)
        with open(outfile, "a") as o:
            o.write(json.dumps(rec) + "\n")
        print(idx, mid, rec.get("suite"), rec.get("caught"), flush=True)
    run("git checkout -q -- .", REPO)


if __name__ == "__main__":
    main()
