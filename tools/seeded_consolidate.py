#!/usr/bin/env python3
"""Developer tool: consolidates the raw laboratory evaluation lines (which may contain broken
escapes from an earlier version of the shell tool) into sensitivity/seeded_history.jsonl (first
evaluation of every mutant) and sensitivity/seeded_lab.jsonl (latest laboratory evaluation)."""
import json, re, sys, os
ROOT = os.path.dirname(os.path.dirname(os.path.abspath(__file__)))
files = sys.argv[1:]
def parse(l):
    try:
        return json.loads(l)
    except Exception:
        pass
    m = re.search(r'"name":"([^"]+)"', l)
    if not m: return None
    d = {"name": m.group(1)}
    for k in ("suite", "demo_clean", "demo_mutant", "tier"):
        mm = re.search(r'"%s":"(\w+)"' % k, l)
        if mm: d[k] = mm.group(1)
    d["results"] = {k: {"rc": int(v), "first": ""} for k, v in re.findall(r'"(C\d\d)":\{"rc":(\d+)', l)}
    return d
first, last = {}, {}
for f in files:
    for l in open(f):
        l = l.strip()
        if not l: continue
        d = parse(l)
        if not d or "results" not in d: continue
        # a killed helper process once reverted the patch under C01-b's first evaluation: skip that artefact
        if d["name"] == "C01-b" and all(v["rc"] == 0 for v in d["results"].values()) and f.endswith("round1_raw.jsonl"):
            continue
        first.setdefault(d["name"], d)
        if d["name"] in last:
            merged = dict(last[d["name"]]); merged["results"] = dict(merged["results"]); merged["results"].update(d["results"]); last[d["name"]] = merged
        else:
            last[d["name"]] = d
with open(os.path.join(ROOT, "sensitivity", "seeded_history.jsonl"), "w") as o:
    for k in sorted(first): o.write(json.dumps(first[k]) + "\n")
with open(os.path.join(ROOT, "sensitivity", "seeded_lab.jsonl"), "w") as o:
    for k in sorted(last): o.write(json.dumps(last[k]) + "\n")
print(len(first), "mutants")
