#!/bin/sh
# Developer tool (soundness): every quick check on the unchanged tree under several seeds, fresh processes.
# usage: tools/multiseed.sh "<seeds>" [tier]     prints one line per run; exit 1 if any run is not exit 0
ROOT="$(cd "$(dirname "$0")/.." && pwd)"; cd "$ROOT"
SEEDS="${1:-1 2 3 4 5}"; TIER="${2:-quick}"
BAD=0
for s in $SEEDS; do
  for i in 01 02 03 04 05 06 07 08 09 10 11 12 13 14 15 16 17 18 19; do
    VERIF_SEED=$s ./bin/check C$i $TIER > /var/tmp/ms-$$.log 2>&1; rc=$?
    echo "seed=$s C$i rc=$rc $(grep -c '^VIOLATION' /var/tmp/ms-$$.log) violations, $(grep -c '^INCONCLUSIVE' /var/tmp/ms-$$.log) inconclusive, $(grep -m1 -o 'wall=[0-9.]*s' /var/tmp/ms-$$.log)"
    if [ $rc -ne 0 ]; then BAD=1; grep -E '^(VIOLATION|INCONCLUSIVE|  stage)' /var/tmp/ms-$$.log | head -5; fi
  done
done
rm -f /var/tmp/ms-$$.log
exit $BAD
